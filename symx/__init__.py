"""symx: replay-based symbolic path explorer over z3.

Symbolic scalars (SymInt / SymReal / SymBool / SymRank) overload the Python operators and build z3
terms; the only branching point is ``SymBool.__bool__`` (and unique-value concretisation of ints).
The explorer re-executes the harness once per feasible path (decision-prefix replay).  At the end of a
path the harness' verdict ``ok`` is an obligation: ``pc AND NOT ok`` unsat  =>  holds for all inputs on
that path; sat  =>  the model is a concrete counterexample.

Control exceptions derive from BaseException because the code under analysis has bare ``except:``
blocks; a swallowed control exception is remembered in ``Engine.poison``.
"""
import collections
import time
from fractions import Fraction

import z3

try:
    import sys as _sys
    _sys.set_int_max_str_digits(0)      # z3 models of nonlinear obligations can contain rationals with thousands of digits
except Exception:
    pass


class Control(BaseException):
    pass


class Abort(Control):
    """path abandoned: operation outside the modelled subset -> inconclusive"""


class Reject(Control):
    """assumption failed -> vacuous path"""


class Inconclusive(Control):
    """solver said unknown / budget exhausted -> template inconclusive"""


class ModelGap(Exception):
    """numpy behaviour that the list-backed model does not implement.  A *regular* exception on
    purpose: it may be swallowed by dimarray's try/except like a numpy error would be; the engine
    notices via Engine.poison."""
    def __init__(self, msg):
        Exception.__init__(self, msg)
        if _E is not None:
            _E.poison = ('abort', 'ModelGap: ' + str(msg))


_E = None  # current engine (one per process)


def engine():
    return _E


class Engine(object):
    def __init__(self, solver_timeout_ms=20000, seed=0):
        self.s = z3.Solver()
        self.timeout_ms = solver_timeout_ms
        self.s.set('timeout', solver_timeout_ms)
        self.s.set('random_seed', seed & 0x7fffffff)
        self.stats = collections.Counter()
        self.ztime = 0.0
        self.poison = None
        self.decls = []       # (name, Sym) declared inputs of the current path
        self.obs = None
        self.uf_registry = {}  # z3 decl name -> python kernel name
        self.dumps = []
        self.dump_k = 0

    # ------------------------------------------------------------------ solver access
    def check(self, *extra):
        """satisfiability of pc (&& extra).  The incremental solver answers first; when it gives up
        (z3's incremental core is weak on nonlinear real arithmetic) the same assertions are handed to a
        fresh, non-incremental solver, which uses the full tactic pipeline (nlsat)."""
        t = time.time()
        r = self.s.check(*extra)
        self._model_src = self.s
        if r == z3.unknown:
            s2 = z3.Solver()
            s2.set('timeout', self.timeout_ms)
            s2.add(*self.s.assertions())
            s2.add(*extra)
            r = s2.check()
            self._model_src = s2
            self.stats['fresh_solver_queries'] += 1
        self.ztime += time.time() - t
        self.stats['q_' + str(r)] += 1
        return r

    def last_model(self):
        return self._model_src.model()

    def check_obligation(self, okz):
        r = self._check_obligation(okz)
        if r == z3.unsat and len(self.dumps) < self.dump_k:
            # keep the discharged obligation as SMT-LIB2 for the second-solver cross-check of the driver
            self.s.push()
            self.s.add(z3.Not(okz))
            self.dumps.append(self.s.to_smt2())
            self.s.pop()
        return r

    def _check_obligation(self, okz):
        """is pc && !ok satisfiable?  First as one query under a short time limit; when the solver gives up
        (large nonlinear conjunctions), conjunct by conjunct: pc && !c_i for every top-level conjunct c_i."""
        conj = _conjuncts(okz)
        if len(conj) <= 1:
            return self.check(z3.Not(okz))
        self.s.set('timeout', 4000)
        try:
            r = self.check(z3.Not(okz))
        finally:
            self.s.set('timeout', self.timeout_ms)
        if r != z3.unknown:
            return r
        self.stats['split_obligations'] += 1
        worst = z3.unsat
        for c in conj:
            r = self.check(z3.Not(c))
            if r == z3.sat:
                return r
            if r == z3.unknown:
                worst = z3.unknown
                import os
                if os.environ.get('VERIF_DUMP'):
                    self.s.push()
                    self.s.add(z3.Not(c))
                    open(os.environ['VERIF_DUMP'], 'w').write(self.s.to_smt2())
                    self.s.pop()
        return worst

    # ------------------------------------------------------------------ one path
    def begin(self, prefix):
        self.prefix = prefix
        self.trace = []
        self.known = {}
        self.model = None
        self.poison = None
        self.decls = []
        self.obs = None
        self.notes = {}
        self.s.push()

    def end(self):
        self.s.pop()

    def assume(self, cond):
        if not self.decide(cond):
            self.poison = ('reject', 'assume')
            raise Reject()

    def decide(self, cond):
        """cond: z3 BoolRef -> python bool; extends the path condition."""
        cond = z3.simplify(cond)
        if z3.is_true(cond):
            return True
        if z3.is_false(cond):
            return False
        key = cond.get_id()
        hit = self.known.get(key)
        if hit is not None:
            return hit[0]
        i = len(self.trace)
        if i < len(self.prefix):
            b = self.prefix[i]
            self.model = None
            forced = None
        else:
            mv = None
            if self.model is not None:
                ev = self.model.eval(cond, model_completion=True)
                mv = True if z3.is_true(ev) else (False if z3.is_false(ev) else None)
            if mv is None:
                r = self.check()
                if r != z3.sat:
                    self.poison = ('inconclusive', 'pc %s' % r)
                    raise Inconclusive("path condition not sat: %s" % r)
                self.model = self.last_model()
                ev = self.model.eval(cond, model_completion=True)
                mv = z3.is_true(ev)
            other = z3.Not(cond) if mv else cond
            ro = self.check(other)
            if ro == z3.unknown:
                self.poison = ('inconclusive', 'unknown on branch')
                raise Inconclusive("solver unknown on branch")
            if ro == z3.sat:
                b = True
                self.pending.append(self.trace + [False])
                self.stats['forks'] += 1
                if not mv:
                    self.model = self.last_model()
            else:
                b = mv
        self.trace.append(b)
        self.stats['decisions'] += 1
        self.s.add(cond if b else z3.Not(cond))
        self.known[key] = (b, cond)
        nc = z3.simplify(z3.Not(cond))
        self.known[nc.get_id()] = (not b, nc)
        return b

    # ------------------------------------------------------------------ inputs
    def declare(self, name, sym):
        self.decls.append((name, sym))
        return sym

    def fresh_int(self, name):
        return self.declare(name, SymInt(z3.Int(name)))

    def fresh_real(self, name):
        return self.declare(name, SymReal(z3.Real(name)))

    def fresh_bool(self, name):
        return self.declare(name, SymBool(z3.Bool(name)))

    def fresh_rank(self, name):
        return self.declare(name, SymRank(z3.Int(name)))

    # ------------------------------------------------------------------ exploration
    def explore(self, harness, deadline_s=60, max_paths=200000, witness_cap=8, on_path=None):
        """harness(engine) -> ok (bool | SymBool).  Returns a result dict."""
        global _E
        _E = self
        self.pending = [[]]
        t0 = time.time()
        res = {'paths': 0, 'verified': 0, 'vacuous': 0, 'aborted': 0, 'status': None, 'cex': None,
               'abort_reasons': [], 'witnesses': [], 'exc': None}
        try:
            while self.pending:
                if time.time() - t0 > deadline_s or res['paths'] >= max_paths:
                    res['status'] = 'inconclusive'
                    res['abort_reasons'].append('budget: %d paths, %.0fs, %d pending' % (res['paths'], time.time() - t0, len(self.pending)))
                    return res
                prefix = self.pending.pop()
                self.begin(prefix)
                try:
                    res['paths'] += 1
                    exc = None
                    try:
                        ok = harness(self)
                    except Reject:
                        res['vacuous'] += 1
                        continue
                    except Abort as e:
                        res['aborted'] += 1
                        if len(res['abort_reasons']) < 5:
                            res['abort_reasons'].append(str(e))
                        continue
                    except Inconclusive as e:
                        res['status'] = 'inconclusive'
                        res['abort_reasons'].append(str(e))
                        return res
                    if self.poison is not None:
                        kind, why = self.poison
                        if kind == 'reject':
                            res['vacuous'] += 1
                            continue
                        if kind == 'abort':
                            res['aborted'] += 1
                            if len(res['abort_reasons']) < 5:
                                res['abort_reasons'].append(why)
                            continue
                        res['status'] = 'inconclusive'
                        res['abort_reasons'].append(why)
                        return res
                    if isinstance(ok, SymBool):
                        r = self.check_obligation(ok.z)
                        if r == z3.unknown:
                            res['status'] = 'inconclusive'
                            res['abort_reasons'].append('unknown on obligation')
                            return res
                        if r == z3.unsat:
                            ok = True
                        else:
                            m = self.last_model()      # model of pc && !ok (taken before anything else touches the solver)
                            okz = ok.z
                            ok = False
                            # Refinement for uninterpreted kernels (floordiv, pow, median, ...): the solver may pick an interpretation of
                            # the kernel that the real function does not have.  If the obligation HOLDS at the model's inputs once the
                            # kernel applications are evaluated with their real semantics, that point is settled by direct evaluation;
                            # it is excluded and the query repeated (bounded).  unsat after exclusions: the obligation holds at the
                            # excluded points by evaluation and everywhere else for every interpretation of the kernels.
                            tries = 0
                            while self.uf_registry and _has_uf(okz, self) and tries < 12:
                                tries += 1
                                try:
                                    holds_really = bool(eval_term(okz, m, self))
                                except Exception:
                                    break
                                if not holds_really:
                                    break
                                block = []
                                for _n, _sym in self.decls:
                                    zz = getattr(_sym, 'z', None)
                                    if zz is not None:
                                        block.append(zz != m.eval(zz, model_completion=True))
                                if not block:
                                    break
                                self.s.add(z3.Or(*block))
                                self.stats['uf_refinements'] = self.stats.get('uf_refinements', 0) + 1
                                r = self._check_obligation(okz)
                                if r == z3.unsat:
                                    ok = True
                                    break
                                if r == z3.unknown:
                                    res['status'] = 'inconclusive'
                                    res['abort_reasons'].append('unknown on obligation (after kernel refinement)')
                                    return res
                                m = self.last_model()
                    elif not ok:
                        r = self.check()
                        if r != z3.sat:
                            res['status'] = 'inconclusive'
                            res['abort_reasons'].append('pc %s at obligation' % r)
                            return res
                        m = self.last_model()
                    if ok:
                        res['verified'] += 1
                        if len(res['witnesses']) < witness_cap or on_path is not None:
                            r = self.check()
                            if r == z3.sat:
                                m = self.last_model()
                                w = {'inputs': self.concrete_inputs(m), 'obs': concretize(self.obs, m, self),
                                     'notes': dict(self.notes)}
                                if len(res['witnesses']) < witness_cap:
                                    res['witnesses'].append(w)
                                if on_path is not None:
                                    on_path(w)
                        continue
                    res['cex'] = {'inputs': self.concrete_inputs(m), 'obs': concretize(self.obs, m, self),
                                  'notes': dict(self.notes)}
                    res['status'] = 'refuted'
                    return res
                finally:
                    self.end()
            if res['aborted']:
                res['status'] = 'inconclusive'
            elif res['verified'] == 0:
                res['status'] = 'vacuous'
            else:
                res['status'] = 'confirmed'
            return res
        finally:
            res['wall_s'] = time.time() - t0
            _E = None

    def concrete_inputs(self, m):
        out = {}
        for name, sym in self.decls:
            out[name] = concretize(sym, m, self)
        return out


def _conjuncts(z):
    out = []
    stack = [z]
    while stack:
        t = stack.pop()
        if z3.is_and(t):
            stack.extend(t.children())
        else:
            out.append(t)
    return out


# ---------------------------------------------------------------------- concretisation
def _pyval(v):
    if z3.is_int_value(v):
        return v.as_long()
    if z3.is_rational_value(v):
        f = v.as_fraction()
        if f.denominator == 1:
            return float(f.numerator)
        return float(f)
    if z3.is_algebraic_value(v):
        return float(v.approx(20).as_fraction())
    if z3.is_true(v):
        return True
    if z3.is_false(v):
        return False
    return None


def eval_term(z, m, eng):
    """evaluate a z3 term to a python value under model m, interpreting registered kernel
    applications (uninterpreted functions) with their *real* python semantics"""
    if eng is None or not eng.uf_registry or not _has_uf(z, eng):
        v = _pyval(m.eval(z, model_completion=True))
        if v is None:
            raise ValueError("cannot evaluate %s" % z)
        return v
    return _eval_rec(z, m, eng)


def _has_uf(z, eng):
    stack = [z]
    seen = set()
    while stack:
        t = stack.pop()
        if t.get_id() in seen:
            continue
        seen.add(t.get_id())
        if z3.is_app(t):
            if t.decl().kind() == z3.Z3_OP_UNINTERPRETED and t.num_args() > 0:
                return True
            stack.extend(t.children())
    return False


def _eval_rec(t, m, eng):
    if not z3.is_app(t):
        raise ValueError("cannot evaluate %s" % t)
    k = t.decl().kind()
    if t.num_args() == 0:
        v = _pyval(m.eval(t, model_completion=True))
        if v is None:
            raise ValueError("cannot evaluate %s" % t)
        return v
    args = [_eval_rec(c, m, eng) for c in t.children()]
    if k == z3.Z3_OP_UNINTERPRETED:
        name = t.decl().name()
        fn = eng.uf_registry.get(name)
        if fn is None:
            raise ValueError("no semantics for %s" % name)
        return fn(args)
    if k == z3.Z3_OP_ADD:
        return sum(args)
    if k == z3.Z3_OP_SUB:
        r = args[0]
        for a in args[1:]:
            r = r - a
        return r
    if k == z3.Z3_OP_UMINUS:
        return -args[0]
    if k == z3.Z3_OP_MUL:
        r = 1
        for a in args:
            r = r * a
        return r
    if k in (z3.Z3_OP_DIV,):
        return args[0] / args[1] if args[1] != 0 else float('nan')
    if k == z3.Z3_OP_IDIV:
        return args[0] // args[1] if args[1] != 0 else 0
    if k == z3.Z3_OP_TO_REAL:
        return float(args[0])
    if k == z3.Z3_OP_TO_INT:
        import math
        return int(math.floor(args[0]))
    if k == z3.Z3_OP_ITE:
        return args[1] if args[0] else args[2]
    if k == z3.Z3_OP_LT:
        return args[0] < args[1]
    if k == z3.Z3_OP_LE:
        return args[0] <= args[1]
    if k == z3.Z3_OP_GT:
        return args[0] > args[1]
    if k == z3.Z3_OP_GE:
        return args[0] >= args[1]
    if k == z3.Z3_OP_EQ:
        return args[0] == args[1]
    if k == z3.Z3_OP_DISTINCT:
        return len(set(args)) == len(args)
    if k == z3.Z3_OP_NOT:
        return not args[0]
    if k == z3.Z3_OP_AND:
        return all(args)
    if k == z3.Z3_OP_OR:
        return any(args)
    raise ValueError("cannot evaluate op %s" % t.decl())


def concretize(a, m, eng=None):
    if isinstance(a, SymRank):
        return Rank(eval_term(a.z, m, eng))
    if isinstance(a, Sym):
        return eval_term(a.z, m, eng)
    if isinstance(a, list):
        return [concretize(x, m, eng) for x in a]
    if isinstance(a, tuple):
        return tuple(concretize(x, m, eng) for x in a)
    if isinstance(a, dict):
        return dict((k, concretize(v, m, eng)) for k, v in a.items())
    return a


class Rank(object):
    """concrete value of an abstract ordered label (rendered as a str for the real stack)"""
    __slots__ = ('r',)

    def __init__(self, r):
        self.r = r

    def __repr__(self):
        return "Rank(%d)" % self.r

    def __eq__(self, o):
        return isinstance(o, Rank) and o.r == self.r

    def __hash__(self):
        return hash(('Rank', self.r))


# ---------------------------------------------------------------------- symbolic scalars
class Sym(object):
    __slots__ = ('z',)

    def __init__(self, z):
        self.z = z

    def __deepcopy__(self, memo):
        return self

    def __copy__(self):
        return self

    def __repr__(self):
        return "<%s %s>" % (type(self).__name__, self.z)

    def __hash__(self):
        if _E is not None:
            _E.poison = ('abort', 'hash of symbolic value')
        raise Abort("hash of symbolic value")

    def __format__(self, spec):
        return repr(self)


def _abort(msg):
    if _E is not None:
        _E.poison = ('abort', msg)
    raise Abort(msg)


class SymBool(Sym):
    _sym_kind = 'b'
    __slots__ = ()

    def __bool__(self):
        return _E.decide(self.z)

    def __invert__(self):
        return SymBool(z3.Not(self.z))

    def __and__(self, o):
        return SymBool(z3.And(self.z, _zb(o)))
    __rand__ = __and__

    def __or__(self, o):
        return SymBool(z3.Or(self.z, _zb(o)))
    __ror__ = __or__

    def __xor__(self, o):
        return SymBool(z3.Xor(self.z, _zb(o)))
    __rxor__ = __xor__

    def __eq__(self, o):
        if isinstance(o, (SymBool, bool)):
            return SymBool(self.z == _zb(o))
        return _as_int(self).__eq__(o)

    def __ne__(self, o):
        if isinstance(o, (SymBool, bool)):
            return SymBool(self.z != _zb(o))
        return _as_int(self).__ne__(o)
    __hash__ = Sym.__hash__

    # bool behaves as 0/1 in arithmetic
    def __add__(self, o):
        return _as_int(self) + o
    __radd__ = __add__

    def __mul__(self, o):
        return _as_int(self) * o
    __rmul__ = __mul__

    def __sub__(self, o):
        return _as_int(self) - o

    def __rsub__(self, o):
        return o - _as_int(self)

    def __lt__(self, o):
        return _as_int(self) < o

    def __le__(self, o):
        return _as_int(self) <= o

    def __gt__(self, o):
        return _as_int(self) > o

    def __ge__(self, o):
        return _as_int(self) >= o

    def __index__(self):
        return 1 if bool(self) else 0
    __int__ = __index__


def _as_int(b):
    return SymInt(z3.If(b.z, z3.IntVal(1), z3.IntVal(0)))


def _zb(o):
    if isinstance(o, SymBool):
        return o.z
    if isinstance(o, bool):
        return z3.BoolVal(o)
    _abort("bool op with %r" % (o,))


def _isnan(o):
    return type(o) is float and o != o


def real_val(o):
    if isinstance(o, int):
        return z3.RealVal(o)
    f = Fraction(o)
    return z3.RealVal(str(f.numerator) + "/" + str(f.denominator))


class SymNum(Sym):
    __slots__ = ()

    def _coerce(self, o):
        """return (zself, zother, cls) or None"""
        if isinstance(o, SymNum):
            if type(o) is type(self):
                return self.z, o.z, type(self)
            a = z3.ToReal(self.z) if isinstance(self, SymInt) else self.z
            b = z3.ToReal(o.z) if isinstance(o, SymInt) else o.z
            return a, b, SymReal
        if isinstance(o, SymBool):
            return self._coerce(_as_int(o))
        if isinstance(o, bool):
            o = int(o)
        if isinstance(o, int):
            if isinstance(self, SymInt):
                return self.z, z3.IntVal(o), SymInt
            return self.z, z3.RealVal(o), SymReal
        if isinstance(o, float):
            if o != o or o in (float('inf'), float('-inf')):
                return None
            a = z3.ToReal(self.z) if isinstance(self, SymInt) else self.z
            return a, real_val(o), SymReal
        return None

    def _cmp(self, o, op, nanres):
        c = self._coerce(o)
        if c is None:
            if isinstance(o, float):
                if o != o:
                    return nanres
                return {'lt': o > 0, 'le': o > 0, 'gt': o < 0, 'ge': o < 0, 'eq': False, 'ne': True}[op]
            if op == 'eq':
                return False if _plain_scalar(o) else NotImplemented
            if op == 'ne':
                return True if _plain_scalar(o) else NotImplemented
            if isinstance(o, (str, SymRank)):
                raise TypeError("'<' not supported between instances of 'int' and 'str'")
            return NotImplemented
        a, b, _ = c
        return SymBool({'lt': a < b, 'le': a <= b, 'gt': a > b, 'ge': a >= b, 'eq': a == b, 'ne': a != b}[op])

    def __lt__(self, o):
        return self._cmp(o, 'lt', False)

    def __le__(self, o):
        return self._cmp(o, 'le', False)

    def __gt__(self, o):
        return self._cmp(o, 'gt', False)

    def __ge__(self, o):
        return self._cmp(o, 'ge', False)

    def __eq__(self, o):
        return self._cmp(o, 'eq', False)

    def __ne__(self, o):
        return self._cmp(o, 'ne', True)
    __hash__ = Sym.__hash__

    def _arith(self, o, f, swap=False):
        c = self._coerce(o)
        if c is None:
            if isinstance(o, float):
                return o if o != o else NotImplemented   # NaN propagates; +-inf not modelled
            return NotImplemented
        a, b, cls = c
        return cls(f(b, a) if swap else f(a, b))

    def __add__(self, o):
        return self._arith(o, lambda a, b: a + b)

    def __radd__(self, o):
        return self._arith(o, lambda a, b: a + b, True)

    def __sub__(self, o):
        return self._arith(o, lambda a, b: a - b)

    def __rsub__(self, o):
        return self._arith(o, lambda a, b: a - b, True)

    def __mul__(self, o):
        return self._arith(o, lambda a, b: a * b)

    def __rmul__(self, o):
        return self._arith(o, lambda a, b: a * b, True)

    def __neg__(self):
        return type(self)(-self.z)

    def __pos__(self):
        return self

    def __abs__(self):
        return type(self)(z3.If(self.z >= 0, self.z, -self.z))

    def __bool__(self):
        return _E.decide(self.z != 0)

    def _div(self, o, swap):
        c = self._coerce(o)
        if c is None:
            if isinstance(o, float) and o != o:
                return o
            return NotImplemented
        a, b, _ = c
        if swap:
            a, b = b, a
        a = z3.ToReal(a) if a.sort() == z3.IntSort() else a
        b = z3.ToReal(b) if b.sort() == z3.IntSort() else b
        return SymReal(a / b)

    def __truediv__(self, o):
        return self._div(o, False)

    def __rtruediv__(self, o):
        return self._div(o, True)

    def __floordiv__(self, o):
        if not _numlike(o):
            return NotImplemented
        return uf_real('floordiv', [self, o])

    def __rfloordiv__(self, o):
        if not _numlike(o):
            return NotImplemented
        return uf_real('floordiv', [o, self])

    def __pow__(self, o):
        if not _numlike(o):
            return NotImplemented
        return uf_real('pow', [self, o])

    def __rpow__(self, o):
        if not _numlike(o):
            return NotImplemented
        return uf_real('pow', [o, self])

    def __index__(self):
        return concretize_int(self)

    def __int__(self):
        return concretize_int(self)

    def __float__(self):
        _abort("float() of symbolic")


def _numlike(o):
    return isinstance(o, (SymNum, SymBool, int, float)) and not _isnan(o)


def _plain_scalar(o):
    return o is None or isinstance(o, (str, bytes, tuple, SymRank))


class SymInt(SymNum):
    _sym_kind = 'i'
    __slots__ = ()


class SymReal(SymNum):
    _sym_kind = 'f'
    __slots__ = ()


def assume(c):
    if isinstance(c, SymBool):
        _E.assume(c.z)
    elif not c:
        if _E is not None:
            _E.poison = ('reject', 'assume')
        raise Reject()


class SymRank(Sym):
    """abstract totally ordered label (models str labels): only ==, !=, <, <=, >, >= against ranks"""
    _sym_kind = 'U'
    __slots__ = ()

    def _c(self, o, op):
        if isinstance(o, SymRank):
            a, b = self.z, o.z
            return SymBool({'lt': a < b, 'le': a <= b, 'gt': a > b, 'ge': a >= b, 'eq': a == b, 'ne': a != b}[op])
        if op == 'eq':
            return False
        if op == 'ne':
            return True
        raise TypeError("'<' not supported between instances of 'str' and %r" % type(o).__name__)

    def __lt__(self, o):
        return self._c(o, 'lt')

    def __le__(self, o):
        return self._c(o, 'le')

    def __gt__(self, o):
        return self._c(o, 'gt')

    def __ge__(self, o):
        return self._c(o, 'ge')

    def __eq__(self, o):
        return self._c(o, 'eq')

    def __ne__(self, o):
        return self._c(o, 'ne')
    __hash__ = Sym.__hash__

    def __add__(self, o):
        raise TypeError("unsupported operand type(s) for +: 'str' label")
    __radd__ = __sub__ = __rsub__ = __mul__ = __rmul__ = __add__

    def __neg__(self):
        raise TypeError("bad operand type for unary -: 'str'")


# ---------------------------------------------------------------------- uninterpreted kernels
_UF = {}


def _zreal(a):
    if isinstance(a, SymInt):
        return z3.ToReal(a.z)
    if isinstance(a, SymReal):
        return a.z
    if isinstance(a, SymBool):
        return z3.If(a.z, z3.RealVal(1), z3.RealVal(0))
    if isinstance(a, bool):
        return z3.RealVal(int(a))
    if isinstance(a, (int, float)) and a == a and a not in (float('inf'), float('-inf')):
        return real_val(a)
    _abort("kernel argument %r" % (a,))


def uf_real(name, args, semantics=None, symmetric=False):
    """application of the uninterpreted numeric kernel `name` to cells -> SymReal.
    `semantics`: python function(list of floats) -> float used when a model is evaluated.
    `symmetric`: the kernel does not depend on the order of its operands (median, var, ...): the
    operands are put into a canonical order so that permuted fibres give the same term."""
    zs = [_zreal(a) for a in args]
    if symmetric:
        zs.sort(key=lambda z: z.sexpr())
    key = "%s_%d" % (name, len(zs))
    f = _UF.get(key)
    if f is None:
        f = _UF[key] = z3.Function(key, *([z3.RealSort()] * (len(zs) + 1)))
    if _E is not None and key not in _E.uf_registry:
        _E.uf_registry[key] = semantics or KERNEL_SEMANTICS.get(name) or _no_sem(name)
    return SymReal(f(*zs))


def _no_sem(name):
    def f(args):
        raise ValueError("no python semantics for kernel %s" % name)
    return f


def _py_floordiv(a):
    import math
    return float('nan') if a[1] == 0 else float(math.floor(a[0] / a[1]))


def _py_pow(a):
    try:
        return float(a[0]) ** float(a[1])
    except Exception:
        return float('nan')


KERNEL_SEMANTICS = {'floordiv': _py_floordiv, 'pow': _py_pow}


def has_sym(cells):
    for c in cells:
        if isinstance(c, Sym):
            return True
    return False


def concretize_int(x, fanout=12):
    """unique-value concretisation: a concrete int equal to x on this path, forking if several values
    are feasible (up to `fanout`)."""
    z = x.z if x.z.sort() == z3.IntSort() else z3.ToInt(x.z)
    zs = z3.simplify(z)
    if z3.is_int_value(zs):
        return zs.as_long()
    for _ in range(fanout):
        r = _E.check()
        if r != z3.sat:
            _E.poison = ('inconclusive', 'concretize: pc %s' % r)
            raise Inconclusive("concretize: pc %s" % r)
        v = _E.last_model().eval(z, model_completion=True).as_long()
        _E.model = None
        if _E.decide(z == v):
            return v
    _abort("concretize: more than %d feasible values" % fanout)


def floor_real(x):
    return SymInt(z3.ToInt(x.z))


def ceil_real(x):
    f = z3.ToInt(x.z)
    return SymInt(z3.If(z3.ToReal(f) == x.z, f, f + 1))


def ite(c, a, b):
    """non-forking if-then-else on symbolic numbers"""
    if not isinstance(c, SymBool):
        return a if c else b
    for x in (a, b):
        if not isinstance(x, (SymNum, int, float)) or _isnan(x):
            return a if bool(c) else b
    if isinstance(a, SymInt) and isinstance(b, (SymInt, int)) or isinstance(b, SymInt) and isinstance(a, int):
        za = a.z if isinstance(a, Sym) else z3.IntVal(a)
        zb = b.z if isinstance(b, Sym) else z3.IntVal(b)
        return SymInt(z3.If(c.z, za, zb))
    return SymReal(z3.If(c.z, _zreal(a), _zreal(b)))
