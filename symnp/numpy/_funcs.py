"""symnp functions: constructors, ufuncs, reductions, searching, set ops, interp ..."""
import itertools
import math
import builtins

import symx
from symx import ModelGap, Sym, SymInt, SymReal, SymBool, SymRank
from ._core import (generic, number, int64, float64, bool_, object_, str_,
                    ndarray, dtype, nan, inf, _discover, _infer_kind, _cast_cell, _prod, _strides, _norm_axis,
                    _isnan_cell, _kind_of_cell, _promote, _promote_arrays, _bshape, _broadcast_flat,
                    _nonzero_lists, _argsort, AxisError)

_dtype = dtype


# ------------------------------------------------------------------------------------ constructors
from ._core import dtype as _core_dtype


def array(obj, dtype=None, copy=True, order=None, ndmin=0):
    if ndmin:
        raise ModelGap("array ndmin")
    dt = _dtype(dtype) if dtype is not None else None
    if isinstance(obj, ndarray):
        if dt is None or dt is obj.dtype:
            if copy:
                return obj.copy(order or 'K')
            if order == 'C' and not obj._contiguous():
                if copy is False:
                    raise ValueError("Unable to avoid copy while creating an array as requested.")
                return obj.copy('C')
            if order == 'F' and obj.ndim > 1 and not obj._f_contiguous() and not (obj._contiguous() and builtins.sum(1 for n in obj.shape if n != 1) <= 1):
                if copy is False:
                    raise ValueError("Unable to avoid copy while creating an array as requested.")
                return obj.copy('F')
            return obj
        if copy is False:
            raise ValueError("Unable to avoid copy while creating an array as requested.")
        return obj.astype(dt)
    if isinstance(obj, MaskedArray):
        return array(obj._data, dtype=dtype, copy=copy)
    if hasattr(obj, '__array__') and not isinstance(obj, (str, list, tuple, Sym)):
        a = obj.__array__()
        if not isinstance(a, ndarray):
            raise ModelGap("__array__ returned %r" % type(a))
        return array(a, dtype=dtype, copy=copy)
    if copy is False:
        raise ValueError("Unable to avoid copy while creating an array as requested.")
    shape, flat = _discover(obj)
    kind = dt.kind if dt is not None else _infer_kind(flat)
    if kind == 'U' and dt is None and flat and not builtins.all(_kind_of_cell(c) == 'U' for c in flat):
        pass  # numbers meeting strings are stringified by _cast_cell
    return ndarray(shape, kind, [_cast_cell(c, kind) for c in flat])


def asarray(obj, dtype=None, order=None, copy=None):
    return array(obj, dtype=dtype, copy=copy, order=order)


asanyarray = asarray


def ascontiguousarray(obj, dtype=None):
    a = asarray(obj, dtype, order='C')
    if a.ndim == 0:
        a = a.reshape(1)
    return a


def asfortranarray(obj, dtype=None):
    a = asarray(obj, dtype, order='F')
    if a.ndim == 0:
        a = a.reshape(1)
    return a


def _shape_arg(shape):
    if isinstance(shape, int):
        return (shape,)
    if isinstance(shape, ndarray):
        return tuple(int(s) for s in shape._d)
    return tuple(int(s) for s in shape)


def empty(shape, dtype=None, order='C'):
    shape = _shape_arg(shape)
    dt = _dtype(dtype)
    fillv = {'f': 0.0, 'i': 0, 'b': False, 'O': None, 'U': ''}[dt.kind]
    return ndarray(shape, dt, [fillv] * _prod(shape))


def zeros(shape, dtype=None, order='C'):
    a = empty(shape, dtype)
    a.fill(0)
    return a


def ones(shape, dtype=None, order='C'):
    a = empty(shape, dtype)
    a.fill(1)
    return a


def full(shape, fill_value, dtype=None):
    shape = _shape_arg(shape)
    k = _dtype(dtype).kind if dtype is not None else _kind_of_cell(fill_value)
    return ndarray(shape, k, [_cast_cell(fill_value, k)] * _prod(shape))


def empty_like(a, dtype=None):
    a = asarray(a)
    return empty(a.shape, dtype or a.dtype)


def zeros_like(a, dtype=None):
    a = asarray(a)
    return zeros(a.shape, dtype or a.dtype)


def ones_like(a, dtype=None):
    a = asarray(a)
    return ones(a.shape, dtype or a.dtype)


def arange(*args, **kw):
    if kw.get('dtype') is not None:
        raise ModelGap("arange dtype")
    if builtins.any(isinstance(a, float) for a in args):
        raise ModelGap("arange with floats")
    r = range(*[int(a) for a in args])
    return ndarray((len(r),), 'i', list(r))


def linspace(*a, **k):
    raise ModelGap("linspace")


def ndim(a):
    if isscalar(a):
        return 0
    return len(_discover(a)[0]) if not isinstance(a, ndarray) else a.ndim


def size(a, axis=None):
    if axis is not None:
        return asarray(a).shape[axis]
    if isscalar(a):
        return 1
    return _prod(_discover(a)[0])


def shape(a):
    return asarray(a).shape


def isscalar(x):
    return isinstance(x, (int, float, str, bytes, complex, bool)) or hasattr(x, '_sym_kind')


def iterable(x):
    if isinstance(x, Sym):
        return False
    try:
        iter(x)
    except TypeError:
        return False
    return True


def copy(a):
    return array(a, copy=True)


# ------------------------------------------------------------------------------------ element ops
def _nanany(a, b):
    return _isnan_cell(a) or _isnan_cell(b)


def _add(a, b):
    if _nanany(a, b):
        return nan
    return a + b


def _sub(a, b):
    if _nanany(a, b):
        return nan
    return a - b


def _mul(a, b):
    if _nanany(a, b):
        return nan
    return a * b


def _truediv(a, b):
    if _nanany(a, b):
        return nan
    if isinstance(a, Sym) or isinstance(b, Sym):
        return a / b
    if b == 0:
        if a == 0:
            return nan
        return inf if a > 0 else -inf
    return a / b


def _floordiv(a, b):
    if _nanany(a, b):
        return nan
    if isinstance(a, Sym) or isinstance(b, Sym):
        return symx.uf_real('floordiv', [a, b])
    if b == 0:
        if isinstance(a, int) and isinstance(b, int):
            return 0
        if a == 0:
            return nan
        return inf if a > 0 else -inf
    return a // b


def _pow(a, b):
    if _nanany(a, b):
        if not isinstance(a, Sym) and not isinstance(b, Sym) and (b == 0 or a == 1):
            return 1.0
        return nan
    if isinstance(a, Sym) or isinstance(b, Sym):
        return symx.uf_real('pow', [a, b])
    if isinstance(a, int) and isinstance(b, int):
        if b < 0:
            raise ValueError("Integers to negative integer powers are not allowed.")
        return a ** b
    try:
        r = float(a) ** float(b)
    except ZeroDivisionError:
        return inf
    except OverflowError:
        return inf
    if isinstance(r, complex):
        return nan
    return r


def _cmp_factory(op):
    def f(a, b):
        if _nanany(a, b):
            return op == 'ne'
        if op == 'eq':
            r = a == b
        elif op == 'ne':
            r = a != b
        elif op == 'lt':
            r = a < b
        elif op == 'le':
            r = a <= b
        elif op == 'gt':
            r = a > b
        else:
            r = a >= b
        if r is NotImplemented:
            raise TypeError("comparison not supported")
        return r
    return f


def _and(a, b):
    if isinstance(a, (bool, SymBool)) and isinstance(b, (bool, SymBool)):
        if isinstance(a, bool) and isinstance(b, bool):
            return a and b
        return (a & b) if isinstance(a, SymBool) else (b & a)
    if isinstance(a, Sym) or isinstance(b, Sym):
        raise ModelGap("bitwise and on symbolic ints")
    return a & b


def _or(a, b):
    if isinstance(a, (bool, SymBool)) and isinstance(b, (bool, SymBool)):
        if isinstance(a, bool) and isinstance(b, bool):
            return a or b
        return (a | b) if isinstance(a, SymBool) else (b | a)
    if isinstance(a, Sym) or isinstance(b, Sym):
        raise ModelGap("bitwise or on symbolic ints")
    return a | b


def _xor(a, b):
    if isinstance(a, (bool, SymBool)) and isinstance(b, (bool, SymBool)):
        if isinstance(a, bool) and isinstance(b, bool):
            return a != b
        return (a ^ b) if isinstance(a, SymBool) else (b ^ a)
    raise ModelGap("bitwise xor")


_OPS = {
    'add': (_add, None), 'subtract': (_sub, None), 'multiply': (_mul, None),
    'true_divide': (_truediv, 'f'), 'floor_divide': (_floordiv, None), 'power': (_pow, None),
    'equal': (_cmp_factory('eq'), 'b'), 'not_equal': (_cmp_factory('ne'), 'b'),
    'less': (_cmp_factory('lt'), 'b'), 'less_equal': (_cmp_factory('le'), 'b'),
    'greater': (_cmp_factory('gt'), 'b'), 'greater_equal': (_cmp_factory('ge'), 'b'),
    'bitwise_and': (_and, None), 'bitwise_or': (_or, None), 'bitwise_xor': (_xor, None),
}


def _operand(x):
    if isinstance(x, ndarray):
        return x.shape, x._d, x.dtype.kind, True
    if isinstance(x, MaskedArray):
        raise ModelGap("ufunc on masked array")
    s, f = _discover(x)
    return s, f, _infer_kind(f), s != ()


def _binary(name, x, y):
    f, rkind = _OPS[name]
    xs, xf, kx, xarr = _operand(x)
    ys, yf, ky, yarr = _operand(y)
    cmp_ = rkind == 'b'
    # numpy refuses arithmetic between numbers and strings; == / != give all-False / all-True
    strs = ('U' in (kx, ky)) and kx != ky and 'O' not in (kx, ky)
    if strs:
        if name in ('equal', 'not_equal'):
            rs = _bshape(xs, ys)
            v = name == 'not_equal'
            return ndarray(rs, 'b', [v] * _prod(rs)) if rs != () or xarr or yarr else v
        raise TypeError("ufunc '%s' did not contain a loop with signature matching types" % name)
    if kx == 'U' and ky == 'U' and not cmp_ and name != 'add':
        raise TypeError("ufunc '%s' did not contain a loop with signature matching types" % name)
    rs = _bshape(xs, ys)
    xb = _broadcast_flat(xs, xf, rs)
    yb = _broadcast_flat(ys, yf, rs)
    if name in ('subtract',) and kx == 'b' and ky == 'b':
        raise TypeError("numpy boolean subtract, the `-` operator, is not supported, use the bitwise_xor, the `^` operator, or the logical_xor function instead.")
    k = rkind or _promote_arrays(kx, ky)
    if name in ('add', 'multiply') and k == 'b':
        f = _or if name == 'add' else _and
    if name in ('floor_divide', 'power', 'subtract') and k == 'b':
        k = 'i'
        xb = [_cast_cell(c, 'i') for c in xb]
        yb = [_cast_cell(c, 'i') for c in yb]
    if name in ('bitwise_and', 'bitwise_or', 'bitwise_xor') and k not in 'bi':
        raise TypeError("ufunc '%s' not supported for the input types" % name)
    if k == 'f' or (rkind == 'f'):
        # numpy casts integer operands to float before a float operation
        if kx in 'bi':
            xb = [_cast_cell(c, 'f') for c in xb]
        if ky in 'bi':
            yb = [_cast_cell(c, 'f') for c in yb]
    out = [f(a, b) for a, b in zip(xb, yb)]
    if k in 'if':
        out = [_cast_cell(c, k) if not _isnan_cell(c) else c for c in out]
    if rs == () and not (isinstance(x, ndarray) and isinstance(y, ndarray)) and not (xarr or yarr):
        return out[0]
    if rs == () and not builtins.any(isinstance(o, ndarray) and o.ndim > 0 for o in (x, y)):
        # 0-d result of array scalars: numpy returns a scalar
        return out[0]
    return ndarray(rs, k, out)


def _mk2(name):
    def uf(x, y, out=None, **kw):
        if kw:
            raise ModelGap("ufunc kwargs")
        r = _binary(name, x, y)
        if out is not None:
            # the result is written into the given buffer (and through every view of it)
            if not isinstance(out, ndarray) or tuple(out.shape) != tuple(asarray(r).shape):
                raise ModelGap("ufunc out= of another shape")
            out[...] = r
            return out
        return r
    uf.__name__ = name
    return uf


add = _mk2('add')
subtract = _mk2('subtract')
multiply = _mk2('multiply')
true_divide = divide = _mk2('true_divide')
floor_divide = _mk2('floor_divide')
power = _mk2('power')
equal = _mk2('equal')
not_equal = _mk2('not_equal')
greater = _mk2('greater')
greater_equal = _mk2('greater_equal')
less = _mk2('less')
less_equal = _mk2('less_equal')
bitwise_and = _mk2('bitwise_and')
bitwise_or = _mk2('bitwise_or')
logical_and = _mk2('bitwise_and')
logical_or = _mk2('bitwise_or')


def _wrap(x, res):
    """ufuncs hand their result to the __array_wrap__ of an array-like input (dimarray relies on it)"""
    w = getattr(x, '__array_wrap__', None)
    if w is not None and not isinstance(x, ndarray) and isinstance(res, ndarray):
        return w(res)
    return res


def _unary(fn, x, kind=None):
    if isinstance(x, ndarray):
        k = kind or x.dtype.kind
        return ndarray(x.shape, k, [fn(c) for c in x._d])
    if isscalar(x):
        return fn(x)
    return _wrap(x, _unary(fn, asarray(x), kind))


def _abs1(c):
    if _isnan_cell(c) or isinstance(c, (bool, SymBool)):
        return c
    return builtins.abs(c)


def absolute(x):
    return _unary(_abs1, x)


abs = absolute


def negative(x):
    return asarray(x).__neg__() if not isscalar(x) else -x


def invert(x):
    if isscalar(x):
        return ~x
    return asarray(x).__invert__()


logical_not = invert
bitwise_not = invert


def isnan(x):
    if isinstance(x, ndarray):
        if x.dtype.kind not in 'fib':
            raise TypeError("ufunc 'isnan' not supported for the input types, and the inputs could not be safely coerced to any supported types according to the casting rule ''safe''")
        return ndarray(x.shape, 'b', [_isnan_cell(c) for c in x._d])
    if isscalar(x):
        if isinstance(x, (str, bytes, SymRank)):
            raise TypeError("ufunc 'isnan' not supported for the input types")
        return _isnan_cell(x)
    if x is None:
        raise TypeError("ufunc 'isnan' not supported for the input types")
    return _wrap(x, isnan(asarray(x)))


def isfinite(x):
    return _unary(lambda c: not _isnan_cell(c) and c not in (inf, -inf), x, 'b')


def _sqrt1(c):
    if _isnan_cell(c):
        return c
    if isinstance(c, Sym):
        return symx.uf_real('sqrt', [c], lambda a: math.sqrt(a[0]) if a[0] >= 0 else nan)
    return math.sqrt(c) if c >= 0 else nan


def sqrt(x):
    return _unary(_sqrt1, x, 'f')


def _ceil1(c):
    if _isnan_cell(c):
        return c
    if isinstance(c, SymInt):
        return _cast_cell(c, 'f')
    if isinstance(c, SymReal):
        return _cast_cell(symx.ceil_real(c), 'f')
    return float(math.ceil(c))


def ceil(x):
    return _unary(_ceil1, x, 'f')


def _floor1(c):
    if _isnan_cell(c):
        return c
    if isinstance(c, SymInt):
        return _cast_cell(c, 'f')
    if isinstance(c, SymReal):
        return _cast_cell(symx.floor_real(c), 'f')
    return float(math.floor(c))


def floor(x):
    return _unary(_floor1, x, 'f')


def round(x, decimals=0):
    def r1(c):
        if isinstance(c, Sym):
            raise ModelGap("round on symbolic")
        return c if _isnan_cell(c) else builtins.round(c, decimals)
    return _unary(r1, x)


around = round


# ------------------------------------------------------------------------------------ kernels
def _hasnan(c):
    for x in c:
        if _isnan_cell(x):
            return True
    return False


def _nn(c):
    return [x for x in c if not _isnan_cell(x)]


def _k_sum(c):
    if _hasnan(c):
        return nan
    s = 0
    for x in c:
        s = s + (_cast_cell(x, 'i') if isinstance(x, (bool, SymBool)) else x)
    return s


def _k_prod(c):
    if _hasnan(c):
        return nan
    s = 1
    for x in c:
        s = s * (_cast_cell(x, 'i') if isinstance(x, (bool, SymBool)) else x)
    return s


def _lt(a, b):
    return a < b


def _k_min(c):
    if not c:
        raise ValueError("zero-size array to reduction operation minimum which has no identity")
    if _hasnan(c):
        return nan
    m = c[0]
    for x in c[1:]:
        if isinstance(x, Sym) or isinstance(m, Sym):
            if isinstance(x, (SymRank, SymBool)) or isinstance(m, (SymRank, SymBool)):
                m = x if x < m else m
            else:
                m = symx.ite(x < m, x, m)
        elif x < m:
            m = x
    return m


def _k_max(c):
    if not c:
        raise ValueError("zero-size array to reduction operation maximum which has no identity")
    if _hasnan(c):
        return nan
    m = c[0]
    for x in c[1:]:
        if isinstance(x, Sym) or isinstance(m, Sym):
            if isinstance(x, (SymRank, SymBool)) or isinstance(m, (SymRank, SymBool)):
                m = x if x > m else m
            else:
                m = symx.ite(x > m, x, m)
        elif x > m:
            m = x
    return m


def _k_ptp(c):
    if not c:
        raise ValueError("zero-size array to reduction operation maximum which has no identity")
    if _hasnan(c):
        return nan
    return _k_max(c) - _k_min(c)


def _k_argmin(c):
    if not c:
        raise ValueError("attempt to get argmin of an empty sequence")
    for i, x in enumerate(c):
        if _isnan_cell(x):
            return i
    m = 0
    for i in range(1, len(c)):
        if c[i] < c[m]:
            m = i
    return m


def _k_argmax(c):
    if not c:
        raise ValueError("attempt to get argmax of an empty sequence")
    for i, x in enumerate(c):
        if _isnan_cell(x):
            return i
    m = 0
    for i in range(1, len(c)):
        if c[i] > c[m]:
            m = i
    return m


def _truth(x):
    if _isnan_cell(x):
        return True
    if isinstance(x, SymBool):
        return x
    if isinstance(x, Sym):
        if isinstance(x, SymRank):
            raise ModelGap("truth of str label")
        return x != 0
    return bool(x)


def _k_all(c):
    r = True
    for x in c:
        t = _truth(x)
        if t is False:
            return False
        if t is True:
            continue
        r = t if r is True else (r & t)
    return r


def _k_any(c):
    r = False
    for x in c:
        t = _truth(x)
        if t is True:
            return True
        if t is False:
            continue
        r = t if r is False else (r | t)
    return r


def _k_mean(c):
    if not c:
        return nan
    s = _k_sum(c)
    if _isnan_cell(s):
        return s
    return s / len(c) if isinstance(s, Sym) else float(s) / len(c)


def _py_median(a):
    a = sorted(a)
    n = len(a)
    if n % 2:
        return float(a[n // 2])
    return 0.5 * (a[n // 2 - 1] + a[n // 2])


def _py_var(a):
    m = builtins.sum(a) / float(len(a))
    return builtins.sum((x - m) ** 2 for x in a) / float(len(a))


def _py_std(a):
    return math.sqrt(_py_var(a))


def _py_percentile(q):
    def f(a):
        a = sorted(a)
        n = len(a)
        pos = (n - 1) * q / 100.0
        lo = int(math.floor(pos))
        hi = builtins.min(lo + 1, n - 1)
        fr = pos - lo
        return a[lo] + (a[hi] - a[lo]) * fr
    return f


def _uf_or_py(name, c, pyf):
    if symx.has_sym(c):
        return symx.uf_real(name, c, pyf, symmetric=True)
    return pyf([float(x) for x in c])


def _k_median(c):
    if not c:
        return nan
    if _hasnan(c):
        return nan
    if len(c) == 1:
        return _cast_cell(c[0], 'f')
    return _uf_or_py('median', c, _py_median)


def _k_var(c):
    if not c:
        return nan
    if _hasnan(c):
        return nan
    return _uf_or_py('var', c, _py_var)


def _k_std(c):
    if not c:
        return nan
    if _hasnan(c):
        return nan
    return _uf_or_py('std', c, _py_std)


def _nanwrap(k, empty):
    def f(c):
        c2 = _nn(c)
        if not c2:
            if isinstance(empty, Exception):
                raise empty
            return empty
        return k(c2)
    return f


_KERNELS = dict(sum=_k_sum, prod=_k_prod, min=_k_min, max=_k_max, ptp=_k_ptp, argmin=_k_argmin, argmax=_k_argmax,
                all=_k_all, any=_k_any, mean=_k_mean, median=_k_median, var=_k_var, std=_k_std,
                nansum=lambda c: _k_sum(_nn(c)), nanprod=lambda c: _k_prod(_nn(c)),
                nanmin=_nanwrap(_k_min, nan), nanmax=_nanwrap(_k_max, nan), nanmean=_nanwrap(_k_mean, nan),
                nanmedian=_nanwrap(_k_median, nan), nanvar=_nanwrap(_k_var, nan), nanstd=_nanwrap(_k_std, nan),
                nanargmin=_nanwrap(_k_argmin, ValueError("All-NaN slice encountered")),
                nanargmax=_nanwrap(_k_argmax, ValueError("All-NaN slice encountered")))

_FLOATRES = ('mean', 'median', 'var', 'std', 'nanmean', 'nanmedian', 'nanvar', 'nanstd')


def _nanarg(name):
    base = _KERNELS[name[3:]]

    def f(c):
        idx = [i for i, x in enumerate(c) if not _isnan_cell(x)]
        if not idx:
            raise ValueError("All-NaN slice encountered")
        return idx[base([c[i] for i in idx])]
    return f


_KERNELS['nanargmin'] = _nanarg('nanargmin')
_KERNELS['nanargmax'] = _nanarg('nanargmax')


def _reduce(name, a, axis=None, out=None, keepdims=False, dtype=None, **kw):
    if name in ('median', 'nanmedian') and kw.get('overwrite_input', None) is not None:
        # overwrite_input=True lets NumPy reorder the input buffer (np.partition in place; "contents undefined"): modelled as
        # an in-place sort along the reduced axis, after the result has been computed
        ow = kw.pop('overwrite_input')
        r = _reduce(name, a, axis, out, keepdims, dtype, **kw)
        if ow and isinstance(a, ndarray) and not isinstance(axis, (tuple, list)):
            if axis is None:
                a.ravel().sort()        # reaches the input only when ravel() is a view, as in NumPy
            else:
                a.sort(axis=axis)
        return r
    if out is not None or keepdims or dtype is not None or kw:
        raise ModelGap("reduction kwargs %r" % (sorted(kw) or 'out/keepdims/dtype'))
    if isinstance(a, MaskedArray):
        # NumPy dispatches np.f(masked) to the masked method for these reductions; np.ptp works on the raw data
        if name in ('sum', 'prod', 'mean', 'min', 'max', 'std', 'var', 'all', 'any'):
            return _MA._red(name, a, axis)
        if name == 'ptp':
            r = _reduce('ptp', a._data, axis)
            return MaskedArray(r, zeros(r.shape, 'b')) if isinstance(r, ndarray) else MaskedArray(ndarray((), 'f', [r]), ndarray((), 'b', [False]))
        raise ModelGap("np.%s on masked array" % name)
    a = asarray(a)
    if a.dtype.kind in 'OU' and name not in ('all', 'any', 'min', 'max', 'sum', 'argmin', 'argmax'):
        raise TypeError("cannot perform %s with flexible/object type" % name)
    fn = _KERNELS[name]
    base = name[3:] if name.startswith('nan') else name
    ak = a.dtype.kind
    if base in ('all', 'any'):
        k = 'b'
    elif base in ('argmin', 'argmax'):
        k = 'i'
    elif name in _FLOATRES:
        k = 'f'
    elif base in ('sum', 'prod'):
        k = 'i' if ak == 'b' else ak
    else:
        k = ak
    if base == 'ptp' and ak == 'b':
        raise TypeError("numpy boolean subtract, the `-` operator, is not supported")

    def fin(v):
        if k in 'if' and not _isnan_cell(v):
            return _cast_cell(v, k)
        return v
    if isinstance(axis, (tuple, list)):
        raise ModelGap("tuple axis in reduction")
    if axis is None:
        return fin(fn(list(a._d)))
    axis = _norm_axis(axis, a.ndim)
    moved = a.transpose([i for i in range(a.ndim) if i != axis] + [axis])
    n = a.shape[axis]
    rshape = moved.shape[:-1]
    md = moved._d
    out_ = [fin(fn(md[i * n:(i + 1) * n])) for i in range(_prod(rshape))]
    if not rshape:
        return out_[0]
    return ndarray(rshape, k, out_)


def _mkred(name):
    def red(a, axis=None, **kw):
        return _reduce(name, a, axis, **kw)
    red.__name__ = name
    return red


for _n in list(_KERNELS):
    globals()[_n] = _mkred(_n)
amin = min  # noqa
amax = max  # noqa


def _method(name):
    def m(self, axis=None, **kw):
        return _reduce(name, self, axis, **kw)
    m.__name__ = name
    return m


for _n in ('sum', 'prod', 'min', 'max', 'all', 'any', 'mean', 'var', 'std', 'argmin', 'argmax'):
    setattr(ndarray, _n, _method(_n))


def _cum(name, a, axis=None, **kw):
    if kw.get('out') is not None or kw.get('dtype') is not None:
        raise ModelGap("cum kwargs")
    a = asarray(a)
    if axis is None:
        a = a.ravel()
        axis = 0
    axis = _norm_axis(axis, a.ndim)
    skip = name.startswith('nan')
    op = _add if name.endswith('sum') else _mul
    ident = 0 if name.endswith('sum') else 1
    k = 'i' if a.dtype.kind == 'b' else a.dtype.kind
    if k in 'OU':
        raise TypeError("cannot perform accumulate with flexible type")
    res = a.astype(k)
    st = _strides(a.shape)[axis]
    n = a.shape[axis]
    d = res._d
    for start in range(len(d)):
        # start of a fibre: coordinate along `axis` is zero
        if (start // st) % n != 0:
            continue
        acc = None
        for j in range(n):
            c = d[start + j * st]
            if skip and _isnan_cell(c):
                c = ident
            acc = c if acc is None else op(acc, c)
            d[start + j * st] = acc
    return res


def cumsum(a, axis=None, **kw):
    return _cum('cumsum', a, axis, **kw)


def cumprod(a, axis=None, **kw):
    return _cum('cumprod', a, axis, **kw)


def nancumsum(a, axis=None, **kw):
    return _cum('nancumsum', a, axis, **kw)


def nancumprod(a, axis=None, **kw):
    return _cum('nancumprod', a, axis, **kw)


ndarray.cumsum = lambda self, axis=None, **kw: _cum('cumsum', self, axis, **kw)
ndarray.cumprod = lambda self, axis=None, **kw: _cum('cumprod', self, axis, **kw)


def _pct_generic(a, q, axis, skip, **kw):
    for key in ('out', 'overwrite_input'):
        v = kw.pop(key, None)
        if v not in (None, False):
            raise ModelGap("percentile %s" % key)
    if kw:
        raise ModelGap("percentile kwargs %r" % sorted(kw))
    a = asarray(a)
    qs, qf = _discover(q)
    if len(qs) > 1:
        raise ModelGap("percentile q ndim>1")
    for x in qf:
        if isinstance(x, Sym):
            raise ModelGap("symbolic percentile")
        if not 0 <= x <= 100:
            raise ValueError("Percentiles must be in the range [0, 100]")

    def kern(qv):
        pyf = _py_percentile(float(qv))

        def f(c):
            if skip:
                c = _nn(c)
            if not c or _hasnan(c):
                return nan
            return _uf_or_py('percentile_%s' % repr(float(qv)).replace('.', '_').replace('-', 'm'), c, pyf)
        return f
    results = []
    for qv in qf:
        fn = kern(qv)
        if axis is None:
            results.append(((), [fn(list(a._d))]))
        else:
            ax = _norm_axis(axis, a.ndim)
            moved = a.transpose([i for i in range(a.ndim) if i != ax] + [ax])
            n = a.shape[ax]
            rshape = moved.shape[:-1]
            md = moved._d
            results.append((rshape, [fn(md[i * n:(i + 1) * n]) for i in range(_prod(rshape))]))
    if qs == ():
        rshape, cells = results[0]
        return cells[0] if rshape == () else ndarray(rshape, 'f', cells)
    rshape = results[0][0]
    flat = []
    for _, cells in results:
        flat.extend(cells)
    return ndarray((len(qf),) + tuple(rshape), 'f', flat)


def percentile(a, q, axis=None, **kw):
    return _pct_generic(a, q, axis, False, **kw)


def nanpercentile(a, q, axis=None, **kw):
    return _pct_generic(a, q, axis, True, **kw)


# ------------------------------------------------------------------------------------ searching, sets
def where(cond, *args):
    if args:
        if len(args) != 2:
            raise ValueError("either both or neither of x and y should be given")
        c = asarray(cond)
        xs, xf, kx, _ = _operand(args[0])
        ys, yf, ky, _ = _operand(args[1])
        rs = _bshape(_bshape(c.shape, xs), ys)
        cb = _broadcast_flat(c.shape, c._d, rs)
        xb = _broadcast_flat(xs, xf, rs)
        yb = _broadcast_flat(ys, yf, rs)
        k = _promote_arrays(kx, ky)
        return ndarray(rs, k, [_cast_cell(x if (_isnan_cell(t) or t) else y, k) for t, x, y in zip(cb, xb, yb)])
    return nonzero(cond)


def nonzero(a):
    a = asarray(a)
    return tuple(ndarray((len(l),), 'i', l) for l in _nonzero_lists(a))


def flatnonzero(a):
    return nonzero(asarray(a).ravel())[0]


def searchsorted(a, v, side='left', sorter=None):
    a = asarray(a)
    if a.ndim != 1:
        raise ValueError("object too deep for desired array")
    if sorter is None:
        cells = a._d
    else:
        so = asarray(sorter)
        if so.dtype.kind != 'i' and so.size:
            raise TypeError("sorter must only contain integers")
        if so.size != a.size:
            raise ValueError("sorter.size must equal a.size")
        cells = [a._d[int(i)] for i in so._d]
    if side not in ('left', 'right'):
        raise ValueError("search side must be 'left' or 'right' (got %r)" % (side,))
    left = side == 'left'
    ka = a.dtype.kind

    def one(x):
        kx = _kind_of_cell(x)
        if ka in 'bif' and kx == 'U' or ka == 'U' and kx in 'bif':
            # numpy casts both to a common (string) dtype and compares strings
            raise ModelGap("searchsorted between numbers and strings")
        if _isnan_cell(x):
            # nan sorts to the end
            lo, hi = 0, len(cells)
            while lo < hi:
                mid = lo + ((hi - lo) >> 1)
                if (not _isnan_cell(cells[mid])) if left else True:
                    lo = mid + 1
                else:
                    hi = mid
            return lo
        lo, hi = 0, len(cells)
        while lo < hi:
            mid = lo + ((hi - lo) >> 1)
            c = cells[mid]
            if _isnan_cell(c):
                t = False
            else:
                t = (c < x) if left else (c <= x)
            if t:
                lo = mid + 1
            else:
                hi = mid
        return lo
    if isscalar(v):
        return one(v)
    vshape, vflat = _discover(v)
    if not vshape:
        return one(vflat[0])
    return ndarray(vshape, 'i', [one(x) for x in vflat])


def argsort(a, axis=-1, kind=None, order=None):
    return asarray(a).argsort(axis=axis, kind=kind)


def sort(a, axis=-1, kind=None, order=None):
    a = array(a)
    a.sort(axis=axis)
    return a


def take(a, indices, axis=None, out=None, mode='raise'):
    return asarray(a).take(indices, axis=axis, out=out, mode=mode)


def compress(condition, a, axis=None, out=None):
    return asarray(a).compress(condition, axis=axis, out=out)


def concatenate(arrays, axis=0, out=None, **kw):
    if out is not None or kw:
        raise ModelGap("concatenate kwargs")
    arrays = [asarray(a) for a in arrays]
    if not arrays:
        raise ValueError("need at least one array to concatenate")
    if axis is None:
        arrays = [a.ravel() for a in arrays]
        axis = 0
    nd = arrays[0].ndim
    if nd == 0:
        raise ValueError("zero-dimensional arrays cannot be concatenated")
    axis = _norm_axis(axis, nd)
    kind = arrays[0].dtype.kind
    for i, a in enumerate(arrays[1:]):
        if a.ndim != nd:
            raise ValueError("all the input array dimensions except for the concatenation axis must match exactly, but along dimension 0, the array at index 0 has %d dimension(s) and the array at index %d has %d dimension(s)" % (nd, i + 1, a.ndim))
        for d in range(nd):
            if d != axis and a.shape[d] != arrays[0].shape[d]:
                raise ValueError("all the input array dimensions except for the concatenation axis must match exactly, but along dimension %d, the array at index 0 has size %d and the array at index %d has size %d" % (d, arrays[0].shape[d], i + 1, a.shape[d]))
        kind = _promote_arrays(kind, a.dtype.kind)
    moved = [a.transpose([axis] + [i for i in range(nd) if i != axis]) for a in arrays]
    flat = []
    for m in moved:
        flat.extend(m._d)
    n = builtins.sum(a.shape[axis] for a in arrays)
    rest = tuple(arrays[0].shape[i] for i in range(nd) if i != axis)
    res = ndarray((n,) + rest, kind, [_cast_cell(c, kind) for c in flat])
    inv = list(range(1, axis + 1)) + [0] + list(range(axis + 1, nd))
    return res.transpose(inv)


def stack(arrays, axis=0):
    arrays = [asarray(a) for a in arrays]
    if axis != 0:
        raise ModelGap("np.stack axis != 0")
    return array(arrays)


def _uniq_sorted(cells):
    order = _argsort(cells)
    out = []
    for i in order:
        if not out or out[-1] != cells[i]:
            out.append(cells[i])
    return out


def union1d(a, b):
    a = asarray(a)
    b = asarray(b)
    cells = list(a._d) + list(b._d)
    kind = _promote_arrays(a.dtype.kind, b.dtype.kind)
    cells = [_cast_cell(c, kind) for c in cells]
    out = _uniq_sorted(cells)
    return ndarray((len(out),), kind, out)


def unique(a, **kw):
    if kw:
        raise ModelGap("unique kwargs")
    a = asarray(a)
    out = _uniq_sorted(list(a._d))
    return ndarray((len(out),), a.dtype, out)


def intersect1d(a, b, **kw):
    if kw:
        raise ModelGap("intersect1d kwargs")
    a = unique(a)
    b = unique(b)
    out = [c for c in a._d if builtins.any(c == x for x in b._d)]
    return ndarray((len(out),), _promote_arrays(a.dtype.kind, b.dtype.kind), out)


def isin(el, test, assume_unique=False, invert=False, **kw):
    if kw:
        raise ModelGap("isin kwargs")
    el = asarray(el)
    t = asarray(test)
    if ('U' in (el.dtype.kind, t.dtype.kind)) and el.dtype.kind != t.dtype.kind and 'O' not in (el.dtype.kind, t.dtype.kind):
        raise ModelGap("isin between numbers and strings")
    tc = t._d
    res = []
    for c in el._d:
        r = False
        for x in tc:
            if _isnan_cell(c) or _isnan_cell(x):
                continue
            if c == x:
                r = True
                break
        res.append(r)
    if invert:
        res = [not r for r in res]
    return ndarray(el.shape, 'b', res)


def ix_(*args):
    out = []
    nd = len(args)
    for k, a in enumerate(args):
        if not isinstance(a, ndarray):
            s, f = _discover(a)
            a = ndarray(s, _infer_kind(f) if f else 'i', f)   # np.ix_ turns empty sequences into intp
        if a.ndim != 1:
            raise ValueError("Cross index must be 1 dimensional")
        if a.dtype.kind == 'b':
            a = nonzero(a)[0]
        out.append(a.reshape((1,) * k + (a.size,) + (1,) * (nd - k - 1)))
    return tuple(out)


def diff(a, n=1, axis=-1, **kw):
    if kw:
        raise ModelGap("diff kwargs")
    a = asarray(a)
    if n == 0:
        return a
    if n < 0:
        raise ValueError("order must be non-negative but got %r" % n)
    if a.ndim == 0:
        raise ValueError("diff requires input that is at least one dimensional")
    axis = _norm_axis(axis, a.ndim)
    for _ in range(n):
        m = a.shape[axis]
        hi = a.take(list(range(1, m)), axis=axis)
        lo = a.take(list(range(0, builtins.max(m - 1, 0))), axis=axis)
        if a.dtype.kind == 'b':
            a = hi != lo
        else:
            a = hi - lo
    return a


def unravel_index(i, shape):
    if not isinstance(i, (int, SymInt)):
        if isinstance(i, ndarray) and i.ndim == 0:
            i = i._d[0]
        else:
            raise ModelGap("unravel_index of arrays")
    i = int(i)
    if i < 0 or i >= _prod(shape):
        raise ValueError("index %d is out of bounds for array with size %d" % (i, _prod(shape)))
    out = []
    for s in reversed(shape):
        out.append(i % s)
        i //= s
    return tuple(reversed(out))


def meshgrid(*xi, **kw):
    indexing = kw.pop('indexing', 'xy')
    if kw:
        raise ModelGap("meshgrid kwargs")
    arrs = [asarray(x).ravel() for x in xi]
    shape_ = [a.size for a in arrs]
    n = len(arrs)
    out = []
    if indexing == 'xy' and n > 1:
        shape_[0], shape_[1] = shape_[1], shape_[0]
    for k, a in enumerate(arrs):
        pos = k
        if indexing == 'xy' and n > 1 and k < 2:
            pos = 1 - k
        sh = [1] * n
        sh[pos] = a.size
        cells = _broadcast_flat(tuple(sh), a._d, tuple(shape_))
        out.append(ndarray(tuple(shape_), a.dtype, cells))
    return out


def rollaxis(a, axis, start=0):
    a = asarray(a)
    n = a.ndim
    axis = _norm_axis(axis, n)
    if start < 0:
        start += n
    if not (0 <= start < n + 1):
        raise AxisError("'start' arg requires %d <= start < %d, but %d was passed in" % (-n, n + 1, start))
    if axis < start:
        start -= 1
    if axis == start:
        return a
    axes = list(range(n))
    axes.remove(axis)
    axes.insert(start, axis)
    return a.transpose(axes)


def swapaxes(a, a1, a2):
    return asarray(a).swapaxes(a1, a2)


def transpose(a, axes=None):
    return asarray(a).transpose(axes)


def squeeze(a, axis=None):
    return asarray(a).squeeze(axis)


def reshape(a, shape):
    return asarray(a).reshape(shape)


def ravel(a):
    return asarray(a).ravel()


def repeat(a, repeats, axis=None):
    return asarray(a).repeat(repeats, axis)


def interp(x, xp, fp, left=None, right=None, period=None):
    if period is not None:
        raise ModelGap("interp period")
    xs, xf = _discover(x)
    xp = [_cast_cell(c, 'f') for c in asarray(xp)._d]
    fp = [_cast_cell(c, 'f') if not _isnan_cell(c) else c for c in asarray(fp)._d]
    if len(xp) == 0:
        raise ValueError("array of sample points is empty")
    if len(xp) != len(fp):
        raise ValueError("fp and xp are not of the same length.")
    if left is None:
        left = fp[0]
    if right is None:
        right = fp[-1]
    n = len(xp)

    def search(key):
        if key > xp[n - 1]:
            return n
        if key < xp[0]:
            return -1
        if n <= 4:
            i = 1
            while i < n and key >= xp[i]:
                i += 1
            return i - 1
        lo, hi = 0, n
        while lo < hi:           # last index with xp[idx] <= key
            mid = lo + ((hi - lo) >> 1)
            if key >= xp[mid]:
                lo = mid + 1
            else:
                hi = mid
        return lo - 1

    def one(v):
        if _isnan_cell(v):
            return v
        v = _cast_cell(v, 'f')
        j = search(v)
        if j == -1:
            return left
        if j == n:
            return right
        if j == n - 1:
            return fp[j]
        if xp[j] == v:
            return fp[j]
        slope = _truediv(_sub(fp[j + 1], fp[j]), _sub(xp[j + 1], xp[j]))
        return _add(_mul(slope, _sub(v, xp[j])), fp[j])
    out = [one(v) for v in xf]
    out = [c if _isnan_cell(c) else _cast_cell(c, 'f') for c in out]
    if not xs:
        return out[0]
    return ndarray(xs, 'f', out)


def array_equal(a, b):
    a = asarray(a)
    b = asarray(b)
    if a.shape != b.shape:
        return False
    return bool(_k_all((a == b)._d))


def isclose(a, b, rtol=1e-05, atol=1e-08, equal_nan=False):
    """|a - b| <= atol + rtol * |b| over the reals (rounding of the floating-point evaluation is not modelled)"""
    xs, xf, kx, xarr = _operand(a)
    ys, yf, ky, yarr = _operand(b)
    if kx not in 'bif' or ky not in 'bif':
        raise TypeError("ufunc 'isfinite' not supported for the input types")
    rs = _bshape(xs, ys)
    xb = _broadcast_flat(xs, xf, rs)
    yb = _broadcast_flat(ys, yf, rs)
    from fractions import Fraction
    rt, at = Fraction(rtol), Fraction(atol)
    out_ = []
    for p, q in zip(xb, yb):
        if _isnan_cell(p) or _isnan_cell(q):
            out_.append(bool(equal_nan and _isnan_cell(p) and _isnan_cell(q)))
        elif p in (inf, -inf) or q in (inf, -inf):
            out_.append(bool(p == q))
        elif isinstance(p, Sym) or isinstance(q, Sym):
            p_ = _cast_cell(p, 'f') if not isinstance(p, Sym) else p
            q_ = _cast_cell(q, 'f') if not isinstance(q, Sym) else q
            if isinstance(p_, SymBool) or isinstance(q_, SymBool):
                raise ModelGap("isclose on symbolic booleans")
            d = p_ - q_
            ad = symx.ite(d >= 0, d, -d) if isinstance(d, Sym) else builtins.abs(d)
            aq = symx.ite(q_ >= 0, q_, -q_) if isinstance(q_, Sym) else builtins.abs(q_)
            out_.append(ad <= aq * float(rtol) + float(atol))
        else:
            out_.append(bool(builtins.abs(Fraction(p) - Fraction(q)) <= at + rt * builtins.abs(Fraction(q))))
    if rs == () and not (xarr or yarr):
        return out_[0]
    return ndarray(rs, 'b', out_)


def allclose(a, b, rtol=1e-05, atol=1e-08, equal_nan=False):
    r = isclose(a, b, rtol, atol, equal_nan)
    return bool(all(r))


class _IndexExp(object):
    def __getitem__(self, item):
        if not isinstance(item, tuple):
            return (item,)
        return item


index_exp = _IndexExp()


class _SExp(object):
    def __getitem__(self, item):
        return item


s_ = _SExp()


# ------------------------------------------------------------------------------------ masked arrays (subset)
class MaskedArray(object):
    def __init__(self, data, mask):
        self._data = data
        self._mask = mask

    @property
    def shape(self):
        return self._data.shape

    @property
    def dtype(self):
        return self._data.dtype

    @property
    def ndim(self):
        return self._data.ndim

    @property
    def mask(self):
        return self._mask

    @property
    def data(self):
        return self._data

    def filled(self, fill_value=None):
        if fill_value is None:
            raise ModelGap("filled() default fill value")
        k = self._data.dtype.kind
        if k == 'b' and _isnan_cell(fill_value):
            fv = True
        elif k == 'i' and _isnan_cell(fill_value):
            raise ValueError("cannot convert float NaN to integer")
        else:
            fv = fill_value if (k == 'f' and _isnan_cell(fill_value)) else _cast_cell(fill_value, k)
        return ndarray(self._data.shape, k, [fv if m else c for c, m in zip(self._data._d, self._mask._d)])

    def __array__(self, *a, **k):
        return self._data


class _MaskedConstant(MaskedArray):
    """np.ma.masked: the fully masked 0-d result (an instance of a MaskedArray subclass, as in NumPy)"""

    def __init__(self):
        MaskedArray.__init__(self, ndarray((), 'f', [0.0]), ndarray((), 'b', [True]))

    def filled(self, fill_value=None):
        return ndarray((), 'f', [fill_value])

    def __repr__(self):
        return 'masked'


class _MA(object):
    MaskedArray = MaskedArray
    masked = _MaskedConstant()

    @staticmethod
    def isMaskedArray(x):
        return isinstance(x, (MaskedArray, _MaskedConstant))
    isMA = isMaskedArray

    @staticmethod
    def array(data, mask=False, copy=False, dtype=None, **kw):
        if kw:
            raise ModelGap("ma.array kwargs")
        d = array(data, dtype=dtype) if copy else asarray(data, dtype=dtype)      # copy=False: the masked array works on the caller's buffer
        if mask is False or mask is None:
            m = zeros(d.shape, 'b')
        else:
            ms, mf = _discover(mask)
            m = ndarray(d.shape, 'b', [bool(x) for x in _broadcast_flat(ms, mf, d.shape)])
        return MaskedArray(d, m)

    @staticmethod
    def fix_invalid(a, mask=False, copy=True, fill_value=None):
        """mask NaN / inf and overwrite them with the fill value (default 1e20) - in the caller's buffer when copy=False"""
        if isinstance(a, MaskedArray):
            raise ModelGap("fix_invalid of a masked array")
        r = _MA.array(a, mask=mask, copy=copy)
        if r._data.dtype.kind != 'f':
            return r
        fv = 1e20 if fill_value is None else fill_value
        d = r._data._d
        for i, c in enumerate(d):
            if _isnan_cell(c) or (not isinstance(c, Sym) and c in (inf, -inf)):
                r._mask._set(i, True)
                r._data._set(i, fv)
        return r

    @staticmethod
    def asarray(data, dtype=None):
        if isinstance(data, MaskedArray):
            if dtype is None:
                return data
            return MaskedArray(data._data.astype(dtype), data._mask)
        return _MA.array(data, dtype=dtype)

    @staticmethod
    def _red(name, a, axis=None, **kw):
        if kw:
            raise ModelGap("ma reduction kwargs")
        if not isinstance(a, MaskedArray):
            a = _MA.array(a)
        d, m = a._data, a._mask
        kern = _KERNELS[name]
        rk = 'b' if name in ('all', 'any') else ('f' if name in _FLOATRES else ('i' if d.dtype.kind == 'b' and name in ('sum', 'prod') else d.dtype.kind))

        def fibre(cells, masks):
            c = [x for x, mm in zip(cells, masks) if not mm]
            if not c:
                return None
            return kern(c)
        if axis is None:
            r = fibre(d._d, m._d)
            return _MA.masked if r is None else r
        ax = _norm_axis(axis, d.ndim)
        order = [i for i in range(d.ndim) if i != ax] + [ax]
        dm = d.transpose(order)
        mm = m.transpose(order)
        n = d.shape[ax]
        rshape = dm.shape[:-1]
        vals = []
        msk = []
        dmd, mmd = dm._d, mm._d
        for i in range(_prod(rshape)):
            r = fibre(dmd[i * n:(i + 1) * n], mmd[i * n:(i + 1) * n])
            msk.append(r is None)
            vals.append({'b': True, 'i': 0, 'f': 0.0}.get(rk, None) if r is None else r)
        if not rshape:
            return _MA.masked if msk[0] else vals[0]
        return MaskedArray(ndarray(rshape, rk, vals), ndarray(rshape, 'b', msk))

    @staticmethod
    def ptp(a, axis=None, **kw):
        return _MA._red('ptp', a, axis, **kw)

    @staticmethod
    def all(a, axis=None, **kw):
        return _MA._red('all', a, axis, **kw)

    @staticmethod
    def any(a, axis=None, **kw):
        return _MA._red('any', a, axis, **kw)

    @staticmethod
    def sum(a, axis=None, **kw):
        return _MA._red('sum', a, axis, **kw)

    @staticmethod
    def prod(a, axis=None, **kw):
        return _MA._red('prod', a, axis, **kw)

    @staticmethod
    def mean(a, axis=None, **kw):
        return _MA._red('mean', a, axis, **kw)

    @staticmethod
    def min(a, axis=None, **kw):
        return _MA._red('min', a, axis, **kw)

    @staticmethod
    def max(a, axis=None, **kw):
        return _MA._red('max', a, axis, **kw)

    @staticmethod
    def std(a, axis=None, **kw):
        return _MA._red('std', a, axis, **kw)

    @staticmethod
    def var(a, axis=None, **kw):
        return _MA._red('var', a, axis, **kw)


    def __getattr__(self, name):
        from . import _realnames
        if name in _realnames.MA_NAMES:
            def gap(*a, **k):
                raise ModelGap("np.ma.%s" % name)
            gap.__name__ = name
            return gap
        raise AttributeError("module 'numpy.ma' has no attribute %r" % name)


ma = _MA()


# ------------------------------------------------------------------------------------ further commonly used functions
def _minmax2(name):
    def f(x, y, out=None, **kw):
        if out is not None or kw:
            raise ModelGap("ufunc kwargs")
        xs, xf, kx, xarr = _operand(x)
        ys, yf, ky, yarr = _operand(y)
        rs = _bshape(xs, ys)
        xb = _broadcast_flat(xs, xf, rs)
        yb = _broadcast_flat(ys, yf, rs)
        k = _promote_arrays(kx, ky)
        out_ = []
        for a, b in zip(xb, yb):
            if _nanany(a, b):
                out_.append(nan)
            elif isinstance(a, Sym) or isinstance(b, Sym):
                if isinstance(a, (SymRank, SymBool)) or isinstance(b, (SymRank, SymBool)):
                    c = (a < b) if name == 'minimum' else (a > b)
                    out_.append(a if c else b)
                else:
                    out_.append(symx.ite((a < b) if name == 'minimum' else (a > b), a, b))
            else:
                out_.append(builtins.min(a, b) if name == 'minimum' else builtins.max(a, b))
        out_ = [c if _isnan_cell(c) else _cast_cell(c, k) for c in out_] if k in 'if' else out_
        if rs == () and not (xarr or yarr):
            return out_[0]
        return ndarray(rs, k, out_)
    f.__name__ = name
    return f


minimum = _minmax2('minimum')
maximum = _minmax2('maximum')
fmin = minimum
fmax = maximum


def clip(a, a_min=None, a_max=None, out=None, **kw):
    if out is not None or kw:
        raise ModelGap("clip kwargs")
    r = asarray(a)
    if a_min is not None:
        r = maximum(r, a_min)
    if a_max is not None:
        r = minimum(r, a_max)
    return r


ndarray.clip = lambda self, a_min=None, a_max=None, **kw: clip(self, a_min, a_max, **kw)


def mod(x, y):
    def m(a, b):
        if _nanany(a, b):
            return nan
        if isinstance(a, Sym) or isinstance(b, Sym):
            if isinstance(a, SymInt) and isinstance(b, int) and b > 0:
                import z3
                return SymInt(a.z % b)
            raise ModelGap("mod on symbolic values")
        if b == 0:
            return 0 if isinstance(a, int) and isinstance(b, int) else nan
        return a % b
    xs, xf, kx, xarr = _operand(x)
    ys, yf, ky, yarr = _operand(y)
    rs = _bshape(xs, ys)
    out_ = [m(a, b) for a, b in zip(_broadcast_flat(xs, xf, rs), _broadcast_flat(ys, yf, rs))]
    if rs == () and not (xarr or yarr):
        return out_[0]
    return ndarray(rs, _promote_arrays(kx, ky), out_)


remainder = mod


def sign(x):
    def s1(c):
        if _isnan_cell(c):
            return c
        if isinstance(c, Sym):
            t = type(c)
            import z3
            one = z3.IntVal(1) if isinstance(c, SymInt) else z3.RealVal(1)
            return t(z3.If(c.z > 0, one, z3.If(c.z < 0, -one, one - one)))
        return (c > 0) - (c < 0) if isinstance(c, int) else float((c > 0) - (c < 0))
    return _unary(s1, x)


def isinf(x):
    return _unary(lambda c: c in (inf, -inf) if not isinstance(c, Sym) else False, x, 'b')


def count_nonzero(a, axis=None):
    a = asarray(a)
    t = ndarray(a.shape, 'b', [(_isnan_cell(c) or (c != 0 if not isinstance(c, (bool, SymBool, str)) else c)) for c in a._d])
    return _reduce('sum', t, axis)


def argwhere(a):
    nz = nonzero(a)
    n = nz[0].size if nz else 0
    return ndarray((n, len(nz)), 'i', [nz[j]._d[i] for i in range(n) for j in range(len(nz))])


def flip(a, axis=None):
    a = asarray(a)
    if axis is None:
        key = tuple(slice(None, None, -1) for _ in a.shape)
    else:
        ax = _norm_axis(axis, a.ndim)
        key = tuple(slice(None, None, -1) if i == ax else slice(None) for i in range(a.ndim))
    return a[key]


def append(arr, values, axis=None):
    arr = asarray(arr)
    values = asarray(values)
    if axis is None:
        return concatenate((arr.ravel(), values.ravel()))
    return concatenate((arr, values), axis=axis)


def insert(arr, obj, values, axis=None):
    arr = asarray(arr)
    if arr.ndim != 1 or axis not in (None, 0, -1):
        raise ModelGap("insert N-d")
    os_, of = _discover(obj)
    vs_, vf = _discover(values)
    n = arr.size
    if os_ == ():
        i = int(of[0])
        if i < -n or i > n:
            raise IndexError("index %d is out of bounds for axis 0 with size %d" % (i, n))
        if i < 0:
            i += n
        cells = list(arr._d)
        k = _promote_arrays(arr.dtype.kind, _infer_kind(vf)) if False else arr.dtype.kind
        new = cells[:i] + [_cast_cell(v, k) for v in vf] + cells[i:]
        return ndarray((len(new),), k, new)
    if len(vf) == 1:
        vf = vf * len(of)
    if len(vf) != len(of):
        raise ValueError("shape mismatch: value array could not be broadcast to indexing result")
    pos = []
    for i in of:
        i = int(i)
        if i < -n or i > n:
            raise IndexError("index %d is out of bounds for axis 0 with size %d" % (i, n))
        pos.append(i + n if i < 0 else i)
    order = sorted(range(len(pos)), key=lambda j: pos[j])     # stable
    cells = list(arr._d)
    k = arr.dtype.kind
    out = []
    oi = 0
    for p in range(n + 1):
        while oi < len(order) and pos[order[oi]] == p:
            out.append(_cast_cell(vf[order[oi]], k))
            oi += 1
        if p < n:
            out.append(cells[p])
    return ndarray((len(out),), k, out)


def delete(arr, obj, axis=None):
    arr = asarray(arr)
    if arr.ndim != 1 or axis not in (None, 0, -1):
        raise ModelGap("delete N-d")
    os_, of = _discover(obj)
    n = arr.size
    drop = set()
    for i in of:
        i = int(i)
        if i < -n or i >= n:
            raise IndexError("index %d is out of bounds for axis 0 with size %d" % (i, n))
        drop.add(i + n if i < 0 else i)
    cells = [c for j, c in enumerate(arr._d) if j not in drop]
    return ndarray((len(cells),), arr.dtype, cells)


def expand_dims(a, axis):
    a = asarray(a)
    ax = axis if axis >= 0 else axis + a.ndim + 1
    if ax < 0 or ax > a.ndim:
        raise AxisError("axis %d is out of bounds for array of dimension %d" % (axis, a.ndim + 1))
    return a.reshape(a.shape[:ax] + (1,) + a.shape[ax:])


def moveaxis(a, source, destination):
    a = asarray(a)
    if not isinstance(source, int) or not isinstance(destination, int):
        raise ModelGap("moveaxis with sequences")
    s = _norm_axis(source, a.ndim)
    d = _norm_axis(destination, a.ndim)
    order = [i for i in range(a.ndim) if i != s]
    order.insert(d, s)
    return a.transpose(order)


def atleast_1d(a):
    a = asarray(a)
    return a.reshape((1,)) if a.ndim == 0 else a


class broadcast(object):
    def __init__(self, *arrs):
        from ._core import _bshape
        sh = ()
        for a in arrs:
            sh = _bshape(sh, tuple(asarray(a).shape))
        self.shape = tuple(sh)
        self.nd = self.ndim = len(self.shape)


def broadcast_to(a, shape):
    a = asarray(a)
    shape = _shape_arg(shape)
    return ndarray(shape, a.dtype, _broadcast_flat(a.shape, a._d, shape))


def tile(a, reps):
    a = asarray(a)
    if not isinstance(reps, int) or a.ndim != 1:
        raise ModelGap("tile N-d")
    return ndarray((a.size * reps,), a.dtype, list(a._d) * reps)


def vstack(arrays):
    arrays = [asarray(a) for a in arrays]
    arrays = [a.reshape((1, a.size)) if a.ndim == 1 else a for a in arrays]
    return concatenate(arrays, axis=0)


def hstack(arrays):
    arrays = [atleast_1d(a) for a in arrays]
    return concatenate(arrays, axis=0 if arrays[0].ndim == 1 else 1)


def logical_xor(x, y):
    return _binary('bitwise_xor', asarray(x).astype(bool) if not isscalar(x) else bool(x), asarray(y).astype(bool) if not isscalar(y) else bool(y))


def nan_to_num(*a, **k):
    raise ModelGap("nan_to_num")


def result_type(*args):
    """kind-level promotion (one width per kind in this model)"""
    if not args:
        raise ValueError("at least one array or dtype is required")
    ks = []
    for x in args:
        if isinstance(x, ndarray):
            ks.append(x.dtype.kind)
        elif isinstance(x, MaskedArray):
            ks.append(x._data.dtype.kind)
        elif isinstance(x, _core_dtype) or isinstance(x, (type, str)):
            ks.append(_dtype(x).kind)
        else:
            ks.append(_infer_kind([x]))
    k = ks[0]
    for k2 in ks[1:]:
        k = _promote_arrays(k, k2)
    return _dtype({'f': float, 'i': int, 'b': bool, 'O': object, 'U': str}[k])


def promote_types(a, b):
    return result_type(_dtype(a), _dtype(b))


def issubdtype(a, b):
    ka = _dtype(a).kind
    if isinstance(b, type) and issubclass(b, generic):
        if b is generic:
            return True
        if b is number:
            return ka in 'if'
        return {'i': issubclass(int64, b), 'f': issubclass(float64, b), 'b': issubclass(bool_, b), 'O': issubclass(object_, b), 'U': issubclass(str_, b)}[ka]
    return _dtype(b).kind == ka


def can_cast(*a, **k):
    raise ModelGap("can_cast")


def putmask(a, mask, values):
    if not isinstance(a, ndarray):
        raise TypeError("argument 1 must be numpy.ndarray")
    ms, mf = _discover(mask)
    vs, vf = _discover(values)
    mb = _broadcast_flat(ms, mf, a.shape)
    if not vf:
        return
    k = a.dtype.kind
    for i, m in enumerate(mb):
        if _isnan_cell(m) or m:
            a._set(i, _cast_cell(vf[i % len(vf)], k))


def place(arr, mask, vals):
    ms, mf = _discover(mask)
    vs, vf = _discover(vals)
    mb = _broadcast_flat(ms, mf, arr.shape)
    if not vf and builtins.any(bool(m) for m in mb):
        raise ValueError("Cannot insert from an empty array!")
    k = arr.dtype.kind
    j = 0
    for i, m in enumerate(mb):
        if _isnan_cell(m) or m:
            arr._set(i, _cast_cell(vf[j % len(vf)], k))
            j += 1


def copyto(dst, src, casting='same_kind', where=True):
    ss, sf = _discover(src)
    sb = _broadcast_flat(ss, sf, dst.shape)
    if where is True:
        wb = [True] * len(sb)
    else:
        ws, wf = _discover(where)
        wb = _broadcast_flat(ws, wf, dst.shape)
    k = dst.dtype.kind
    for i, (w, v) in enumerate(zip(wb, sb)):
        if w:
            dst._set(i, _cast_cell(v, k))


def put(a, ind, v, mode='raise'):
    isz, iflat = _discover(ind)
    vs, vf = _discover(v)
    n = a.size
    k = a.dtype.kind
    for j, i in enumerate(iflat):
        i = int(i)
        if mode == 'raise' and (i < -n or i >= n):
            raise IndexError("index %d is out of bounds for axis 0 with size %d" % (i, n))
        if mode == 'wrap':
            i %= n
        elif mode == 'clip':
            i = builtins.min(builtins.max(i, 0), n - 1)
        elif i < 0:
            i += n
        a._set(i, _cast_cell(vf[j % len(vf)], k))
