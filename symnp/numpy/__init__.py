"""symnp: a pure-Python, list-backed model of the NumPy API subset used by dimarray, through which
symbolic scalars (symx) can flow.  Installed first on sys.path under the name `numpy`.

Rules: mirror the pinned NumPy's API surface including what is missing (no in1d; array(copy=False)
raises when a copy is needed); anything real NumPy has but the model lacks raises ModelGap when used
(-> inconclusive, never a verdict)."""
import sys as _sys
from symx import ModelGap
from . import _realnames
from ._core import *          # noqa
from ._core import (ndarray, dtype, generic, number, integer, signedinteger, floating, int64, float64, bool_,
                    object_, str_, datetime64, nan, inf, newaxis, AxisError)
from ._funcs import *         # noqa
from ._funcs import (abs, min, max, sum, all, any, round, ma, index_exp, s_, amin, amax)
del MaskedArray
from . import _funcs as _f

__version__ = _realnames.VERSION
NaN = None
del NaN
float_ = None
del float_
pi = 3.141592653589793
e = 2.718281828459045
intp = int64
int_ = int64
double = float64
from ._core import float32, float16, int32, int16, int8, unsignedinteger, uint8, uint16, uint32, uint64
unicode_ = None
del unicode_
bool = bool_     # numpy 2 exports np.bool


class _Exc(object):
    AxisError = AxisError


exceptions = _Exc()

for _n in list(_f._KERNELS):
    globals()[_n] = getattr(_f, _n)


class _Testing(object):
    pass


def __getattr__(name):
    if name in _realnames.NAMES:
        def gap(*a, **k):
            raise ModelGap("np.%s is not modelled" % name)
        gap.__name__ = name
        gap._symnp_gap = True
        return gap
    raise AttributeError("module 'numpy' has no attribute %r" % name)


_sys.modules.setdefault(__name__ + '.ma', ma)
