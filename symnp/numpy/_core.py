"""symnp core: dtype, ndarray (list-backed), indexing engine.  Shapes and dtype kinds are always concrete;
cells are python scalars or symx symbolic scalars."""
import itertools
import math
import builtins

import symx
from symx import ModelGap, Sym, SymInt, SymReal, SymBool, SymRank

nan = float('nan')
inf = float('inf')
newaxis = None


# ------------------------------------------------------------------------------------ dtype
class generic(object):
    _kind = 'O'


class number(generic):
    pass


class integer(number):
    _kind = 'i'


class signedinteger(integer):
    pass


class floating(number):
    _kind = 'f'


class int64(signedinteger):
    def __new__(cls, x=0):
        return int(x)


class float64(floating):
    def __new__(cls, x=0.0):
        return x if isinstance(x, Sym) else float(x)


class float32(floating):
    """narrow floats are NOT modelled (one float kind): np.float32(x) is x; checks that depend on the width are decided
    by their real-stack replay only"""
    def __new__(cls, x=0.0):
        return x if isinstance(x, Sym) else float(x)


class float16(float32):
    pass


class int32(signedinteger):
    """narrow integers are NOT modelled (one unbounded int kind): np.int8(x) is x; checks that depend on the width are
    decided by their real-stack replay only"""
    def __new__(cls, x=0):
        return x if isinstance(x, Sym) else int(x)


class int16(int32):
    pass


class int8(int32):
    pass


class unsignedinteger(integer):
    pass


class uint8(unsignedinteger):
    def __new__(cls, x=0):
        return x if isinstance(x, Sym) else int(x)


class uint16(uint8):
    pass


class uint32(uint8):
    pass


class uint64(uint8):
    pass


class bool_(generic):
    _kind = 'b'


class object_(generic):
    _kind = 'O'


class str_(generic):
    _kind = 'U'


class datetime64(generic):
    _kind = 'M'

    def __init__(self, *a, **k):
        raise ModelGap("datetime64")


class dtype(object):
    _cache = {}
    _names = {'b': 'bool', 'i': 'int64', 'f': 'float64', 'O': 'object', 'U': 'str'}

    def __new__(cls, spec=None):
        if isinstance(spec, dtype):
            return spec
        kind = cls._kind_of(spec)
        d = cls._cache.get(kind)
        if d is None:
            d = object.__new__(cls)
            d.kind = kind
            d.name = cls._names[kind]
            cls._cache[kind] = d
        return d

    @staticmethod
    def _kind_of(spec):
        if spec is None or spec is float:
            return 'f'
        if spec is int:
            return 'i'
        if spec is bool:
            return 'b'
        if spec is object:
            return 'O'
        if spec is str:
            return 'U'
        if isinstance(spec, str):
            s = spec.lstrip('<>=|')
            if s in ('f', 'f8', 'float', 'float64', 'd', 'f4', 'float32'):
                return 'f'
            if s in ('i', 'i8', 'int', 'int64', 'l', 'i4', 'int32', 'intp', 'i2', 'i1', 'int16', 'int8', 'u1', 'u2', 'u4', 'u8', 'uint8', 'uint16', 'uint32', 'uint64', 'uint'):
                return 'i'
            if s in ('b', 'bool', '?', 'b1'):
                return 'b'
            if s in ('O', 'object'):
                return 'O'
            if s in ('U', 'S', 'str') or (s[:1] in 'US' and s[1:].isdigit()):
                return 'U'
        if isinstance(spec, type) and issubclass(spec, generic):
            return spec._kind
        if isinstance(spec, type) and issubclass(spec, SymInt):
            return 'i'
        if isinstance(spec, type) and issubclass(spec, SymReal):
            return 'f'
        raise TypeError("data type %r not understood" % (spec,))

    def __eq__(self, other):
        if isinstance(other, dtype):
            return self is other
        if other is None:
            return False
        try:
            return dtype(other) is self
        except TypeError:
            return False

    def __ne__(self, other):
        return not self.__eq__(other)

    def __hash__(self):
        return hash(self.kind)

    def __repr__(self):
        return "dtype('%s')" % self.name

    __str__ = lambda self: self.name

    @property
    def type(self):
        return {'b': bool_, 'i': int64, 'f': float64, 'O': object_, 'U': str_}[self.kind]

    @property
    def char(self):
        return {'b': '?', 'i': 'l', 'f': 'd', 'O': 'O', 'U': 'U'}[self.kind]


def _isnan_cell(x):
    return type(x) is float and x != x


def _kind_of_cell(x):
    k = getattr(x, '_sym_kind', None)
    if k is not None:
        return k
    if isinstance(x, bool):
        return 'b'
    if isinstance(x, int):
        return 'i'
    if isinstance(x, float):
        return 'f'
    if isinstance(x, str):
        return 'U'
    return 'O'


_PROMO = {('b', 'b'): 'b', ('b', 'i'): 'i', ('i', 'b'): 'i', ('i', 'i'): 'i',
          ('b', 'f'): 'f', ('f', 'b'): 'f', ('i', 'f'): 'f', ('f', 'i'): 'f', ('f', 'f'): 'f', ('U', 'U'): 'U',
          # numpy stringifies numbers that meet strings in np.array([...])
          ('U', 'i'): 'U', ('i', 'U'): 'U', ('U', 'f'): 'U', ('f', 'U'): 'U', ('U', 'b'): 'U', ('b', 'U'): 'U'}


def _promote(k1, k2):
    return _PROMO.get((k1, k2), 'O')


def _promote_arrays(k1, k2):
    """promotion between *array* dtypes (concatenate, binary ops): str/number -> error in numpy for
    ufuncs, object for concatenate of object arrays; here only used for numeric + object"""
    if 'U' in (k1, k2) and k1 != k2:
        if 'O' in (k1, k2):
            return 'O'
        return 'U'
    return _PROMO.get((k1, k2), 'O')


_STROF = {}


def _strof(x):
    """numpy's stringification of a number that meets a string: an uninterpreted injection for
    symbolic numbers (a stringified number is never equal to the number)"""
    import z3
    if isinstance(x, SymInt):
        f = _STROF.get('i')
        if f is None:
            f = _STROF['i'] = z3.Function('str_of_int', z3.IntSort(), z3.IntSort())
        return SymRank(f(x.z))
    if isinstance(x, SymReal):
        f = _STROF.get('f')
        if f is None:
            f = _STROF['f'] = z3.Function('str_of_real', z3.RealSort(), z3.IntSort())
        return SymRank(f(x.z))
    raise ModelGap("stringification of %r" % (x,))


def _cast_cell(x, kind):
    if kind == 'O':
        return x
    sk = getattr(x, '_sym_kind', None)
    if sk is not None:
        if sk == kind:
            return x
        import z3
        if kind == 'f':
            if sk == 'i':
                return SymReal(z3.ToReal(x.z))
            if sk == 'b':
                return SymReal(z3.If(x.z, z3.RealVal(1), z3.RealVal(0)))
        if kind == 'i':
            if sk == 'f':   # truncation toward zero
                fl = z3.ToInt(x.z)
                return SymInt(z3.If(z3.Or(x.z >= 0, z3.ToReal(fl) == x.z), fl, fl + 1))
            if sk == 'b':
                return SymInt(z3.If(x.z, z3.IntVal(1), z3.IntVal(0)))
        if kind == 'b' and sk in 'if':
            return SymBool(x.z != 0)
        if kind == 'b' and sk == 'U':
            return True      # str labels / values are non-empty strings
        if kind == 'U' and sk in 'if':
            return _strof(x)
        if sk == 'U':
            raise ValueError("could not convert string to float: %r" % (x,))
        raise ModelGap("cast sym %s -> %s" % (sk, kind))
    if kind == 'f':
        if isinstance(x, float):
            return x
        if isinstance(x, (int, bool)):
            return float(x)
        if isinstance(x, str):
            try:
                return float(x)
            except ValueError:
                raise ValueError("could not convert string to float: %r" % (x,))
        if x is None:
            return nan
        raise TypeError("float() argument must be a string or a real number, not %r" % type(x).__name__)
    if kind == 'i':
        if isinstance(x, bool):
            return int(x)
        if isinstance(x, int):
            return x
        if isinstance(x, float):
            if x != x:
                raise ValueError("cannot convert float NaN to integer")
            if x in (inf, -inf):
                raise OverflowError("cannot convert float infinity to integer")
            return int(x)
        if isinstance(x, str):
            try:
                return int(x)
            except ValueError:
                raise ValueError("invalid literal for int() with base 10: %r" % (x,))
        raise TypeError("int() argument must be a string, a bytes-like object or a real number, not %r" % type(x).__name__)
    if kind == 'b':
        return bool(x)
    if kind == 'U':
        if isinstance(x, str):
            return x
        if isinstance(x, (bool, int, float)):
            return repr(x) if not isinstance(x, float) else repr(x)
        raise ModelGap("cast %r -> str" % (x,))
    raise TypeError(kind)


def _prod(shape):
    n = 1
    for s in shape:
        n *= s
    return n


def _strides(shape):
    st = []
    n = 1
    for s in reversed(shape):
        st.append(n)
        n *= s
    return tuple(reversed(st))


def _discover(obj, maxdims=32):
    """(shape, flat cells) for nested sequences / ndarrays / scalars"""
    if isinstance(obj, ndarray):
        return obj.shape, list(obj._d)
    if maxdims > 0 and isinstance(obj, (list, tuple)):
        subs = [_discover(o, maxdims - 1) for o in obj]
        if not subs:
            return (0,), []
        sh0 = subs[0][0]
        for sh, _ in subs:
            if sh != sh0:
                raise ValueError("setting an array element with a sequence. The requested array has an inhomogeneous shape")
        flat = []
        for _, f in subs:
            flat.extend(f)
        return (len(obj),) + sh0, flat
    if isinstance(obj, (str, bytes, Sym)) or obj is None:
        return (), [obj]
    if maxdims > 0 and hasattr(obj, '__array__'):
        a = obj.__array__()
        if isinstance(a, ndarray):
            return a.shape, list(a._d)
        raise ModelGap("__array__ returned %r" % type(a))
    if maxdims > 0 and isinstance(obj, (range,)):
        return (len(obj),), list(obj)
    if maxdims > 0 and hasattr(obj, '__len__') and hasattr(obj, '__getitem__') and not isinstance(obj, dict):
        return _discover(list(obj), maxdims)
    return (), [obj]


def _infer_kind(cells):
    kind = None
    for c in cells:
        k = _kind_of_cell(c)
        kind = k if kind is None else _promote(kind, k)
        if kind == 'O':
            break
    return kind or 'f'


class ndarray(object):
    __array_priority__ = 0
    __slots__ = ('shape', 'dtype', '_buf', '_idx')

    def __init__(self, shape, dt, data, idx=None):
        """data: flat cell list (the buffer).  idx: None for an array that owns its buffer, else the
        positions of this *view*'s cells in the shared buffer (NumPy view semantics for basic slicing,
        transpose, reshape of contiguous data, squeeze, newaxis)"""
        self.shape = tuple(shape)
        self.dtype = dtype(dt)
        self._buf = data
        self._idx = idx
        assert (len(data) if idx is None else len(idx)) == _prod(self.shape), (shape, len(data))

    @property
    def _d(self):
        if self._idx is None:
            return self._buf
        b = self._buf
        return [b[i] for i in self._idx]

    def _set(self, i, v):
        if self._idx is None:
            self._buf[i] = v
        else:
            self._buf[self._idx[i]] = v

    def _view(self, shape, src):
        """view on the cells at flat positions `src` of this array"""
        if self._idx is not None:
            ix = self._idx
            src = [ix[i] for i in src]
        return ndarray(shape, self.dtype, self._buf, list(src))

    def _contiguous(self):
        ix = self._idx
        return ix is None or builtins.all(ix[k] + 1 == ix[k + 1] for k in range(len(ix) - 1))

    @property
    def base(self):
        return None if self._idx is None else self._buf

    # -- basic attributes
    @property
    def ndim(self):
        return len(self.shape)

    @property
    def size(self):
        return _prod(self.shape)

    @property
    def T(self):
        return self.transpose()

    @property
    def flags(self):
        class _Flags(object):
            writeable = True

            def __getitem__(self, k):
                if k in ('WRITEABLE', 'W'):
                    return True
                raise ModelGap("ndarray.flags[%r]" % (k,))

            def __getattr__(self, k):
                raise ModelGap("ndarray.flags.%s" % k)
        return _Flags()

    @property
    def flat(self):
        return iter(self._d)

    def __len__(self):
        if not self.shape:
            raise TypeError("len() of unsized object")
        return self.shape[0]

    def __array__(self, *a, **k):
        return self

    def __iter__(self):
        if not self.shape:
            raise TypeError("iteration over a 0-d array")
        return iter([self[i] for i in range(self.shape[0])])

    def __repr__(self):
        return "array(%r, dtype=%s)" % (self.tolist(), self.dtype.name)

    __str__ = __repr__

    def __format__(self, spec):
        return repr(self)

    def tolist(self):
        st = _strides(self.shape)
        d = self._d

        def rec(off, dim):
            if dim == len(self.shape):
                return d[off]
            return [rec(off + i * st[dim], dim + 1) for i in range(self.shape[dim])]
        return rec(0, 0)

    def item(self, *args):
        if args:
            return self[args if len(args) > 1 else args[0]]
        if self.size != 1:
            raise ValueError("can only convert an array of size 1 to a Python scalar")
        return self._d[0]

    def copy(self, order='C'):
        if order in ('K', 'A'):
            order = 'F' if self._f_contiguous() else 'C'
        if order == 'F' and self.ndim > 1:
            return self.transpose().copy().transpose()      # fresh buffer in column-major layout
        if order not in ('C', 'F'):
            raise ValueError("order must be one of 'C', 'F', 'A', or 'K'")
        return ndarray(self.shape, self.dtype, list(self._d))

    def __copy__(self):
        return self.copy()

    def __deepcopy__(self, memo):
        return self.copy()

    def astype(self, dt, copy=True):
        dt = dtype(dt)
        if dt.kind in 'ib' and self.dtype.kind == 'f' and builtins.any(_isnan_cell(c) for c in self._d):
            if dt.kind == 'b':
                return ndarray(self.shape, dt, [True if _isnan_cell(c) else _cast_cell(c, 'b') for c in self._d])
            raise ModelGap("astype(int) of NaN (undefined value in numpy)")
        return ndarray(self.shape, dt, [_cast_cell(c, dt.kind) for c in self._d])

    def view(self, *a, **k):
        if a or k:
            raise ModelGap("ndarray.view with arguments")
        return self

    def fill(self, v):
        v = _cast_cell(v, self.dtype.kind)
        for i in range(self.size):
            self._set(i, v)

    def __bool__(self):
        if self.size != 1:
            if self.size == 0:
                raise ValueError("The truth value of an empty array is ambiguous. Use `array.size > 0` to check that an array is not empty.")
            raise ValueError("The truth value of an array with more than one element is ambiguous. Use a.any() or a.all()")
        c = self._d[0]
        if _isnan_cell(c):
            return True
        return bool(c)

    def __index__(self):
        if self.size != 1 or self.dtype.kind != 'i' or self.ndim != 0:
            raise TypeError("only integer scalar arrays can be converted to a scalar index")
        return self._d[0].__index__()

    def __int__(self):
        if self.size != 1:
            raise TypeError("only length-1 arrays can be converted to Python scalars")
        return int(self._d[0])

    def __float__(self):
        if self.size != 1:
            raise TypeError("only length-1 arrays can be converted to Python scalars")
        return float(self._d[0])

    def __contains__(self, v):
        r = False
        for c in self._d:
            if c == v:
                return True
        return r

    # -- indexing
    def __getitem__(self, key):
        if isinstance(key, (bool, SymBool)):
            # boolean scalar index: a[True] == a[None], a[False] is empty with a leading axis of length 0
            if bool(key):
                return ndarray((1,) + self.shape, self.dtype, list(self._d))
            return ndarray((0,) + self.shape, self.dtype, [])
        rshape, src, scalar, view = _index_map(self.shape, key)
        d = self._d
        if scalar:
            return d[src[0]]
        if view:
            return self._view(rshape, src)
        return ndarray(rshape, self.dtype, [d[i] for i in src])

    def __setitem__(self, key, value):
        if isinstance(key, (bool, SymBool)):
            if bool(key):
                self[...] = value
            return
        rshape, src, scalar, view = _index_map(self.shape, key)
        kind = self.dtype.kind
        if kind == 'O':
            vshape, vflat = _discover(value, maxdims=len(rshape))
        else:
            vshape, vflat = _discover(value)
        if scalar and vshape != () and not isinstance(value, ndarray):
            if kind == 'f':
                raise ValueError("setting an array element with a sequence.")
            if kind == 'i':
                raise TypeError("int() argument must be a string, a bytes-like object or a real number, not 'list'")
            if kind != 'O':
                raise ModelGap("sequence assigned to a scalar position of a %s array" % kind)
        vals = _broadcast_flat(vshape, vflat, rshape)
        if kind in 'if' and builtins.any(isinstance(v, (str, SymRank)) for v in vals):
            if kind == 'f':
                raise ValueError("could not convert string to float")
            raise ValueError("invalid literal for int() with base 10")
        for i, v in zip(src, vals):
            self._set(i, _cast_cell(v, kind))

    # -- shape manipulation
    def _f_contiguous(self):
        return self.ndim > 1 and not self._contiguous() and self.transpose()._contiguous()

    def reshape(self, *shape, **kw):
        order = kw.pop('order', 'C')
        if kw:
            raise ModelGap("reshape kwargs")
        if len(shape) == 1 and isinstance(shape[0], (tuple, list)):
            shape = tuple(shape[0])
        if order == 'A':
            order = 'F' if self._f_contiguous() else 'C'
        if order == 'F':
            shape = tuple(int(x) for x in shape)
            return self.transpose().reshape(tuple(reversed(shape))).transpose()
        if order != 'C':
            raise ValueError("order must be one of 'C', 'F', 'A'")
        shape = tuple(int(s) for s in shape)
        if shape.count(-1) > 1:
            raise ValueError("can only specify one unknown dimension")
        if -1 in shape:
            known = _prod([s for s in shape if s != -1])
            if known == 0 or self.size % known:
                raise ValueError("cannot reshape array of size %d into shape %r" % (self.size, shape))
            shape = tuple(self.size // known if s == -1 else s for s in shape)
        if _prod(shape) != self.size:
            raise ValueError("cannot reshape array of size %d into shape %r" % (self.size, shape))
        if self._contiguous():
            return self._view(shape, range(self.size))
        return ndarray(shape, self.dtype, list(self._d))

    def _order_cells(self, order):
        """cells in the requested flattening order ('C' logical order, 'F' column-major, 'K' / 'A' memory order)"""
        if order in (None, 'C'):
            return None
        if order == 'F':
            return list(self.transpose()._d)
        if order in ('K', 'A'):
            ix = self._idx
            if ix is None or self._contiguous():
                return None
            if order == 'A' and len(set(ix)) == len(ix) and sorted(ix) == list(range(builtins.min(ix), builtins.min(ix) + len(ix))) \
                    and self.transpose()._contiguous():
                return [self._buf[i] for i in sorted(ix)]       # Fortran-contiguous: memory order
            if order == 'A':
                return None
            if len(set(ix)) != len(ix):
                raise ModelGap("ravel(order='K') of an overlapping view")
            return [self._buf[i] for i in sorted(ix)]
        raise ValueError("order must be one of 'C', 'F', 'A', or 'K' (got %r)" % (order,))

    def ravel(self, order='C'):
        cells = self._order_cells(order)
        if cells is not None:
            return ndarray((self.size,), self.dtype, cells)
        if self._contiguous():
            return self._view((self.size,), range(self.size))
        return ndarray((self.size,), self.dtype, list(self._d))

    def flatten(self, order='C'):
        cells = self._order_cells(order)
        return ndarray((self.size,), self.dtype, cells if cells is not None else list(self._d))

    def transpose(self, *axes):
        if len(axes) == 1 and (axes[0] is None or isinstance(axes[0], (tuple, list))):
            axes = axes[0]
        if axes is None or len(axes) == 0:
            axes = tuple(reversed(range(self.ndim)))
        axes = tuple(_norm_axis(a, self.ndim) for a in axes)
        if len(axes) != self.ndim:
            raise ValueError("axes don't match array")
        if sorted(axes) != list(range(self.ndim)):
            raise ValueError("repeated axis in transpose")
        nshape = tuple(self.shape[a] for a in axes)
        st = _strides(self.shape)
        src = []
        for idx in itertools.product(*[range(n) for n in nshape]):
            src.append(builtins.sum(idx[j] * st[axes[j]] for j in range(len(axes))))
        return self._view(nshape, src)

    def swapaxes(self, a1, a2):
        a1 = _norm_axis(a1, self.ndim)
        a2 = _norm_axis(a2, self.ndim)
        ax = list(range(self.ndim))
        ax[a1], ax[a2] = ax[a2], ax[a1]
        return self.transpose(ax)

    def squeeze(self, axis=None):
        if axis is None:
            nshape = tuple(s for s in self.shape if s != 1)
        else:
            if isinstance(axis, tuple):
                raise ModelGap("squeeze tuple axis")
            axis = _norm_axis(axis, self.ndim)
            if self.shape[axis] != 1:
                raise ValueError("cannot select an axis to squeeze out which has size not equal to one")
            nshape = self.shape[:axis] + self.shape[axis + 1:]
        return self._view(nshape, range(self.size))

    def repeat(self, repeats, axis=None):
        if not isinstance(repeats, int):
            rs, rf = _discover(repeats)
            if rs != ():
                raise ModelGap("repeat with array repeats")
            repeats = rf[0]
        if axis is None:
            a = self.ravel()
            axis = 0
        else:
            a = self
            axis = _norm_axis(axis, self.ndim)
        idx = []
        for i in range(a.shape[axis]):
            idx.extend([i] * int(repeats))
        return a.take(idx, axis=axis)

    def take(self, indices, axis=None, out=None, mode='raise'):
        if out is not None:
            raise ModelGap("take out=")
        ishape, iflat = _discover(indices)
        ik = _infer_kind(iflat) if iflat else 'i'
        if isinstance(indices, ndarray):
            ik = indices.dtype.kind
        if ik == 'b':
            iflat = [int(bool(c)) if not isinstance(c, Sym) else (1 if bool(c) else 0) for c in iflat]
        elif ik != 'i' and (iflat or isinstance(indices, ndarray)):
            raise TypeError("Cannot cast array data from dtype('%s') to dtype('int64') according to the rule 'safe'" % dtype(ik).name)
        a = self
        if axis is None:
            a = self.ravel()
            axis = 0
        axis = _norm_axis(axis, a.ndim)
        n = a.shape[axis]
        norm = []
        for i in iflat:
            if isinstance(i, Sym):
                i = int(i)
            if mode == 'raise':
                if i < -n or i >= n:
                    raise IndexError("index %r is out of bounds for axis %d with size %d" % (i, axis, n))
                if i < 0:
                    i += n
            elif mode == 'clip':
                if n == 0:
                    raise IndexError("cannot do a non-empty take from an empty axes.")
                if i < 0:
                    i = 0
                elif i > n - 1:
                    i = n - 1
            elif mode == 'wrap':
                if n == 0:
                    raise IndexError("cannot do a non-empty take from an empty axes.")
                i = i % n
            else:
                raise ValueError("clipmode not understood")
            norm.append(i)
        if n == 0 and norm:
            raise IndexError("cannot do a non-empty take from an empty axes.")
        pre = a.shape[:axis]
        post = a.shape[axis + 1:]
        rshape = pre + tuple(ishape) + post
        st = _strides(a.shape)
        out_ = []
        ad = a._d
        posts = [builtins.sum(q[j] * st[axis + 1 + j] for j in range(len(post))) for q in itertools.product(*[range(s) for s in post])]
        for p in itertools.product(*[range(s) for s in pre]):
            base = builtins.sum(p[j] * st[j] for j in range(len(pre)))
            for i in norm:
                b2 = base + i * st[axis]
                for q in posts:
                    out_.append(ad[b2 + q])
        if not rshape:
            return out_[0]
        return ndarray(rshape, a.dtype, out_)

    def compress(self, condition, axis=None, out=None):
        if out is not None:
            raise ModelGap("compress out=")
        cshape, cflat = _discover(condition)
        if len(cshape) != 1:
            raise ValueError("condition must be a 1-d array")
        idx = [i for i, c in enumerate(cflat) if c]
        a = self
        if axis is None:
            a = self.ravel()
            axis = 0
        if idx and idx[-1] >= a.shape[_norm_axis(axis, a.ndim)]:
            raise IndexError("index %d is out of bounds for axis %d with size %d" % (idx[-1], axis, a.shape[axis]))
        return a.take(idx, axis=axis)

    def nonzero(self):
        return tuple(ndarray((len(l),), 'i', l) for l in _nonzero_lists(self))

    # -- sorting / searching
    def argsort(self, axis=-1, kind=None, order=None):
        if self.ndim != 1:
            raise ModelGap("argsort N-d")
        return ndarray(self.shape, 'i', _argsort(self._d))

    def sort(self, axis=-1, kind=None, order=None):
        if self.ndim == 0:
            raise AxisError("axis %r is out of bounds for array of dimension 0" % (axis,))
        axis = _norm_axis(axis, self.ndim)
        st = _strides(self.shape)
        n = self.shape[axis]
        d = self._d
        others = [range(m) if i != axis else [0] for i, m in enumerate(self.shape)]
        import itertools as _it
        for pos in _it.product(*others):
            base = builtins.sum(p * s_ for p, s_ in zip(pos, st))
            idxs = [base + i * st[axis] for i in range(n)]
            cells = [d[j] for j in idxs]
            order_ = _argsort(cells)
            for j, o in zip(idxs, order_):
                self._set(j, cells[o])

    def searchsorted(self, v, side='left', sorter=None):
        from ._funcs import searchsorted
        return searchsorted(self, v, side=side, sorter=sorter)

    # -- operators
    def _bin(self, other, name, reflect=False):
        from ._funcs import _binary
        if _defer(other):
            return NotImplemented
        return _binary(name, other, self) if reflect else _binary(name, self, other)

    def __add__(self, o): return self._bin(o, 'add')
    def __radd__(self, o): return self._bin(o, 'add', True)
    def __sub__(self, o): return self._bin(o, 'subtract')
    def __rsub__(self, o): return self._bin(o, 'subtract', True)
    def __mul__(self, o): return self._bin(o, 'multiply')
    def __rmul__(self, o): return self._bin(o, 'multiply', True)
    def __truediv__(self, o): return self._bin(o, 'true_divide')
    def __rtruediv__(self, o): return self._bin(o, 'true_divide', True)
    def __floordiv__(self, o): return self._bin(o, 'floor_divide')
    def __rfloordiv__(self, o): return self._bin(o, 'floor_divide', True)
    def __pow__(self, o): return self._bin(o, 'power')
    def __rpow__(self, o): return self._bin(o, 'power', True)
    def __eq__(self, o): return self._bin(o, 'equal')
    def __ne__(self, o): return self._bin(o, 'not_equal')
    def __lt__(self, o): return self._bin(o, 'less')
    def __le__(self, o): return self._bin(o, 'less_equal')
    def __gt__(self, o): return self._bin(o, 'greater')
    def __ge__(self, o): return self._bin(o, 'greater_equal')
    def __and__(self, o): return self._bin(o, 'bitwise_and')
    def __rand__(self, o): return self._bin(o, 'bitwise_and', True)
    def __or__(self, o): return self._bin(o, 'bitwise_or')
    def __ror__(self, o): return self._bin(o, 'bitwise_or', True)
    def __xor__(self, o): return self._bin(o, 'bitwise_xor')

    def __invert__(self):
        if self.dtype.kind == 'b':
            return ndarray(self.shape, 'b', [(not c) if not isinstance(c, Sym) else ~c for c in self._d])
        if self.dtype.kind == 'i':
            return ndarray(self.shape, 'i', [-c - 1 for c in self._d])
        raise TypeError("ufunc 'invert' not supported for the input types")

    def __neg__(self):
        if self.dtype.kind == 'b':
            raise TypeError("The numpy boolean negative, the `-` operator, is not supported, use the `~` operator or the logical_not function instead.")
        return ndarray(self.shape, self.dtype, [c if _isnan_cell(c) else -c for c in self._d])

    def __pos__(self):
        return self.copy()

    def __abs__(self):
        if self.dtype.kind == 'b':
            return self.copy()
        return ndarray(self.shape, self.dtype, [c if _isnan_cell(c) else builtins.abs(c) for c in self._d])
    __hash__ = None

    # reductions are attached in _funcs


def _defer(other):
    # numpy lets the other operand handle the operation when it is not array-like but defines the
    # reflected operator; dimarray objects are handled by numpy itself (via __array__), which the
    # model does not reproduce -> gap
    if isinstance(other, (ndarray, list, tuple, int, float, bool, str, Sym)) or other is None:
        return False
    if hasattr(other, '__array__') or hasattr(other, '__array_wrap__'):
        raise ModelGap("ndarray <op> array-like object %s" % type(other).__name__)
    return True


def _norm_axis(a, ndim):
    if not isinstance(a, int):
        if isinstance(a, (float, str)) or a is None:
            raise TypeError("%r object cannot be interpreted as an integer" % type(a).__name__)
        a = a.__index__()
    if a < -ndim or a >= ndim:
        raise AxisError("axis %d is out of bounds for array of dimension %d" % (a, ndim))
    return a + ndim if a < 0 else a


class AxisError(ValueError, IndexError):
    pass


def _argsort(cells):
    # stable insertion sort on possibly-symbolic cells (forks on comparisons)
    order = []
    for i, c in enumerate(cells):
        j = len(order)
        if not _isnan_cell(c):          # NaN sorts last (NumPy)
            while j > 0 and (_isnan_cell(cells[order[j - 1]]) or c < cells[order[j - 1]]):
                j -= 1
        order.insert(j, i)
    return order


# ------------------------------------------------------------------------------------ indexing engine
def _is_intlike(k):
    return (isinstance(k, int) and not isinstance(k, bool)) or isinstance(k, SymInt)


def _index_map(shape, key):
    """-> (result shape, flat source offsets, is_scalar, is_view (basic indexing only))"""
    if not isinstance(key, tuple):
        key = (key,)
    items = []
    for k in key:
        if isinstance(k, list):
            ks, kf = _discover(k)
            kk = _infer_kind(kf) if kf else 'f'     # np.asarray([]) is float64
            k = ndarray(ks, kk, kf)
        if isinstance(k, ndarray) and k.dtype.kind == 'b':
            nz = _nonzero_lists(k)
            items.append(('boolcheck', k.shape))
            if k.ndim == 0:
                raise ModelGap("0-d boolean index")
            for lst in nz:
                items.append(('adv', (len(lst),), lst))
            continue
        if isinstance(k, ndarray):
            if k.dtype.kind != 'i':
                raise IndexError("arrays used as indices must be of integer (or boolean) type")
            items.append(('adv', k.shape, list(k._d)))
        elif k is None:
            items.append(('new',))
        elif k is Ellipsis:
            items.append(('ell',))
        elif isinstance(k, slice):
            items.append(('slice', k))
        elif isinstance(k, (bool, SymBool)):
            raise ModelGap("boolean scalar index")
        elif _is_intlike(k):
            items.append(('int', k if isinstance(k, int) else int(k)))
        elif hasattr(k, '__index__') and not isinstance(k, Sym):
            items.append(('int', k.__index__()))
        else:
            raise IndexError("only integers, slices (`:`), ellipsis (`...`), numpy.newaxis (`None`) and integer or boolean arrays are valid indices")
    consumed = 0
    has_ell = False
    for it in items:
        if it[0] == 'ell':
            if has_ell:
                raise IndexError("an index can only have a single ellipsis ('...')")
            has_ell = True
        if it[0] in ('int', 'slice', 'adv'):
            consumed += 1
    ndim = len(shape)
    if consumed > ndim:
        raise IndexError("too many indices for array: array is %d-dimensional, but %d were indexed" % (ndim, consumed))
    expanded = []
    for it in items:
        if it[0] == 'ell':
            expanded.extend([('slice', slice(None))] * (ndim - consumed))
        else:
            expanded.append(it)
    if not has_ell:
        expanded.extend([('slice', slice(None))] * (ndim - consumed))
    dim = 0
    bound = []
    for it in expanded:
        if it[0] == 'boolcheck':
            bshape = it[1]
            if tuple(shape[dim:dim + len(bshape)]) != tuple(bshape):
                raise IndexError("boolean index did not match indexed array along axis %d; size of axis is %s but size of corresponding boolean axis is %s" % (dim, shape[dim:dim + 1], bshape[:1]))
            continue
        if it[0] == 'new':
            bound.append(('new',))
            continue
        n = shape[dim]
        if it[0] == 'int':
            i = it[1]
            if i < -n or i >= n:
                raise IndexError("index %r is out of bounds for axis %d with size %d" % (i, dim, n))
            bound.append(('int', i + n if i < 0 else i, dim))
        elif it[0] == 'slice':
            s = it[1]
            s = slice(*[(int(x) if isinstance(x, Sym) else x) for x in (s.start, s.stop, s.step)])
            bound.append(('slice', range(*s.indices(n)), dim))
        else:
            lst = []
            for i in it[2]:
                if isinstance(i, Sym):
                    i = int(i)
                if i < -n or i >= n:
                    raise IndexError("index %r is out of bounds for axis %d with size %d" % (i, dim, n))
                lst.append(i + n if i < 0 else i)
            bound.append(('adv', it[1], lst, dim))
        dim += 1
    has_adv = builtins.any(b[0] == 'adv' for b in bound)
    st = _strides(shape)
    if not has_adv:
        rshape = []
        axes = []
        base = 0
        for b in bound:
            if b[0] == 'int':
                base += b[1] * st[b[2]]
            elif b[0] == 'slice':
                rshape.append(len(b[1]))
                axes.append((b[1], st[b[2]]))
            else:
                rshape.append(1)
                axes.append((range(1), 0))
        src = []
        for idx in itertools.product(*[range(len(r)) for r, _ in axes]):
            off = base
            for j, (r, s) in enumerate(axes):
                off += r[idx[j]] * s
            src.append(off)
        scalar = (len(rshape) == 0 and not has_ell)
        return tuple(rshape), src, scalar, True
    # advanced indexing: ints participate as 0-d arrays
    advpos = [i for i, b in enumerate(bound) if b[0] in ('adv', 'int')]
    bshape = ()
    for i in advpos:
        b = bound[i]
        sh = b[1] if b[0] == 'adv' else ()
        bshape = _bshape(bshape, sh, index=True)
    contiguous = (advpos == list(range(advpos[0], advpos[-1] + 1)))
    others = [(i, b) for i, b in enumerate(bound) if b[0] in ('slice', 'new')]
    oshape = [len(b[1]) if b[0] == 'slice' else 1 for _, b in others]
    if contiguous:
        nbefore = len([1 for i, _ in others if i < advpos[0]])
    else:
        nbefore = 0
    rshape = tuple(oshape[:nbefore]) + tuple(bshape) + tuple(oshape[nbefore:])
    advflat = []
    for i in advpos:
        b = bound[i]
        if b[0] == 'int':
            advflat.append((_broadcast_flat((), [b[1]], bshape), st[b[2]]))
        else:
            advflat.append((_broadcast_flat(b[1], b[2], bshape), st[b[3]]))
    nb = _prod(bshape)
    src = []
    o_before = others[:nbefore]
    o_after = others[nbefore:]

    def offs(olist):
        res = []
        for idx in itertools.product(*[range(len(b[1]) if b[0] == 'slice' else 1) for _, b in olist]):
            off = 0
            for j, (_, b) in enumerate(olist):
                if b[0] == 'slice':
                    off += b[1][idx[j]] * st[b[2]]
            res.append(off)
        return res
    ob_l = offs(o_before)
    oa_l = offs(o_after)
    a_offs = [builtins.sum(fl[k] * s for fl, s in advflat) for k in range(nb)]
    for ob in ob_l:
        for a_off in a_offs:
            for oa in oa_l:
                src.append(ob + a_off + oa)
    return rshape, src, False, False


def _bshape(s1, s2, index=False):
    n = builtins.max(len(s1), len(s2))
    a = (1,) * (n - len(s1)) + tuple(s1)
    b = (1,) * (n - len(s2)) + tuple(s2)
    out = []
    for x, y in zip(a, b):
        if x == y or y == 1:
            out.append(x)
        elif x == 1:
            out.append(y)
        else:
            if index:
                raise IndexError("shape mismatch: indexing arrays could not be broadcast together with shapes %r %r" % (tuple(s1), tuple(s2)))
            raise ValueError("operands could not be broadcast together with shapes %r %r" % (tuple(s1), tuple(s2)))
    return tuple(out)


def _broadcast_flat(shape, flat, target):
    shape = tuple(shape)
    target = tuple(target)
    if shape == target:
        return list(flat)
    if len(shape) > len(target):
        # numpy allows leading 1s to be dropped on assignment
        while len(shape) > len(target) and shape[0] == 1:
            shape = shape[1:]
        if len(shape) > len(target):
            raise ValueError("could not broadcast input array from shape %r into shape %r" % (shape, target))
    full = (1,) * (len(target) - len(shape)) + shape
    for x, y in zip(full, target):
        if x != y and x != 1:
            raise ValueError("could not broadcast input array from shape %r into shape %r" % (shape, target))
    st = _strides(full)
    out = []
    for idx in itertools.product(*[range(n) for n in target]):
        off = 0
        for j, i in enumerate(idx):
            if full[j] != 1:
                off += i * st[j]
        out.append(flat[off])
    return out


def _nonzero_lists(a):
    res = [[] for _ in a.shape]
    if not a.shape:
        raise ModelGap("nonzero of 0-d")
    for idx, c in zip(itertools.product(*[range(n) for n in a.shape]), a._d):
        if _isnan_cell(c) or c:
            for j, i in enumerate(idx):
                res[j].append(i)
    return res
