#!/usr/bin/env python3
"""regenerates MANIFEST.json from the table below (keeps it valid at all times)"""
import json, os
HERE = os.path.dirname(os.path.abspath(__file__))
TECH = "bounded symbolic execution of the real dimarray source (symx path explorer over z3; NumPy replaced by a validated list-backed model); counterexamples and per-path witnesses replayed on real NumPy"
NOTE = ("Trusted: z3, CPython, the symnp NumPy model (conformance-tested against real NumPy 2.5.3; per-path witnesses replayed on the real stack), "
        "the oracle in props/%s.py. Exact reals / unbounded ints (no IEEE rounding, no overflow); sizes beyond the stated bounds, datetime axes, duplicate labels, NumPy view aliasing are outside the claim.")
CLAIMS = {
 'C01': "For every structural case in the bound (0-4 dims, axis lengths 1-4, every index kind per dimension, every spelling) the real indexing code runs symbolically over all label orders, all queried labels (present or absent), mask bits, tolerances and data; z3 discharges 'result == cells at the looked-up labels, IndexError iff a label is absent' on every path.",
 'C03': "For every index form of C01/C02 (1-3 dims, scalars, lists, masks, slices, dicts, full N-d masks, positional), scalar / array / broadcast right-hand sides, both inplace settings and all (array kind, assigned kind) pairs among bool/int/float/object/str, the real assignment code runs symbolically; z3 discharges 'exactly the addressed cells hold the assigned values, everything else (cells, labels, dims, attrs, original when inplace=False) is unchanged, read-back returns what was written'.",
 'C04': "For every pair of dimension lists drawn from a pool (0-2 dims per operand in the quick tier, every overlap pattern and order), 1-3 labels per shared axis, int/float/str label kinds and the six operators, the real operator / align / broadcast code runs symbolically over all label values of both operands (equal, nested, overlapping, disjoint, any order) and all data; z3 discharges 'dims = a.dims + new dims of b, shared axes = set union each once, cell = a op b where both defined else NaN'; scalar, 0-d and ndarray operands in both orders.",
 'C06': "For 1-3 input arrays (and a Dataset among them) with every dimension-overlap pattern, 0-3 labels per axis, join in {outer, inner}, sort in {False, True}, axis=None or a name, align() runs symbolically over all label values and data; z3 discharges 'identical axes on shared dims, label set = union / intersection each once, sorted-direction rule, own data at own labels and NaN elsewhere, foreign dims and inputs untouched'.",
 'C08': "For every reduction (sum, prod, mean, var, std, min, max, ptp, all, any, median, percentile), shapes with sizes 1-3 in 1-4 dims, axis given by name / position / negative position / tuple of names or positions in any order / None, both skipna settings and float/int/bool data, the real reduction code runs symbolically over all data values and all NaN patterns (symbolic NaN bits up to 6 cells); z3 discharges 'each output cell == the NumPy kernel on the designated fibre, remaining axes in original order, metadata kept, DimArray whenever an axis remains'.",
 'C09': "For cumsum / cumprod (default, named, positional axis), diff (three schemes x keepaxis x n in 1..3 x axis sizes 1-5, numeric and str labels) and argmin / argmax (whole array and per axis, ties, NaNs, skipna) in 1-3 dims, the real code runs symbolically over all labels and data; z3 discharges the prefix-fold, n-th difference + relabelling / NaN padding, and 'returned labels index an extremal cell' obligations.",
 'C10': "For every shape in the bound (0-4 dims, equal and distinct lengths) and every permutation / axis pair / roll / insertion position / squeeze / repeat / broadcast target / broadcast_arrays group, by name and by position, the real rearrangement code runs on symbolic labels and data (one path per case); z3 discharges the coordinate-wise obligation for all label and data values.",
 'C11': "For arrays of 1-4 dims (sizes 1-3, member axes of every kind combination) and every ordered subset of dimensions (tuple / list / set / varargs / positions), every insert position, reverse, unflatten of the grouped axis, 24 reshape targets (regroup, reorder, add and drop singletons, transpose=False) and tuple-axis reductions, the real grouping code runs on symbolic labels and data; z3 discharges 'grouped label i == i-th row-major combination of the unchanged member labels, value == original value at that combination, unflatten / reshape round trips'.",
 'C07': "For every structural case (axis length 1-4, 0-3 new labels, axis position in 1-3 dims, list/ndarray/Axis argument, fill value, raise_error, method) reindex_axis / reindex_like run symbolically over all old label orders and all new labels (subset, superset, disjoint, permuted, repeated); z3 discharges 'axis == new labels, slice at a new label == old slice if present else fill'.",
 'C02': "For every structural case (axis length 0-5, direction, step, open/closed bounds, label kind, neighbouring index kinds) the real slicing code is executed symbolically over all label / bound / data values and z3 discharges the inclusive-box obligation on every path.",
}
NA = [("C20", "every statement is about dimarray/io/nc.py driving the netCDF4 extension, which is not installed (the module does not import): no code to execute symbolically and no real stack to validate a model against")]
ALL = ['C%02d' % i for i in range(1, 21)]
def main():
    checks = []
    for pid in sorted(CLAIMS):
        checks.append({"property_id": pid, "quick_cmd": "./check %s --tier quick" % pid, "thorough_cmd": "./check %s --tier thorough" % pid,
            "evidence_file": "evidence/%s.json" % pid, "replay_cmd_template": "./check %s --replay {path}" % pid, "engine": "symx",
            "level_claimed": {"category": "model_checking", "text": "Bounded symbolic model checking of the program itself. " + CLAIMS[pid] + " Counterexamples are replayed on the real NumPy stack before a VIOLATION is printed.", "design_ref": "DESIGN.md sections 2 and 4 (%s)" % pid},
            "level_note": NOTE % pid, "technique": TECH})
    na = [{"property_id": p, "reason": r} for p, r in NA]
    for p in ALL:
        if p not in CLAIMS and p not in [x for x, _ in NA]:
            na.append({"property_id": p, "reason": "check not built yet in this session (planned, see DESIGN.md section 4); not claimed"})
    m = {"version": 1, "setup_cmd": "./setup.sh",
      "hooks": {"guard": "DIMARRAY_VERIF", "enable": "none needed: monitors wrap dimarray from the harness at import time, numpy is substituted through sys.path", "baseline_off_cmd": "cd /repo && /venv/bin/python -m pytest -ra -q -p no:cacheprovider --timeout=900 --continue-on-collection-errors", "source_commits": [], "add_only": True},
      "engines": [{"name": "symx", "path": "symx/", "serves_properties": sorted(CLAIMS), "kind_free_text": "replay-based symbolic path explorer over z3 (SymInt/SymReal/SymBool/SymRank), obligations pc && !ok discharged per path"},
                  {"name": "symnp", "path": "symnp/numpy/", "serves_properties": sorted(CLAIMS), "kind_free_text": "pure-Python list-backed model of the NumPy 2.5.3 API subset used by dimarray (environment stub), conformance-checked against real NumPy"}],
      "checks": checks, "not_applicable": na, "notes": "see DESIGN.md"}
    json.dump(m, open(os.path.join(HERE, 'MANIFEST.json'), 'w'), indent=1)
if __name__ == '__main__':
    main()
