#!/usr/bin/env python3
"""Seeded-fault self-test: applies each one-site mutation of selftest/mutants.json to a scratch copy of /repo
(never to /repo itself), checks that the baseline tests still pass there, runs the named property checks against
the copy and reports which mutants are detected.   usage: run_mutants.py [--only substr] [--tests] [--tier quick]"""
import json, os, subprocess, sys, tempfile, shutil, time
V = os.path.dirname(os.path.dirname(os.path.abspath(__file__)))

def baseline_pass(repo):
    x = os.path.join(repo, 'junit.xml')
    subprocess.run("cd %s && /venv/bin/python -m pytest -q -p no:cacheprovider --timeout=900 --continue-on-collection-errors --junitxml=%s >/dev/null 2>&1" % (repo, x), shell=True)
    import xml.etree.ElementTree as ET
    ok = set()
    try:
        for tc in ET.parse(x).iter('testcase'):
            if not list(tc):
                ok.add(tc.get('classname') + '::' + tc.get('name'))
    except Exception:
        pass
    return ok

def main():
    args = sys.argv[1:]
    only = None; tests = False; tier = 'quick'
    while args:
        a = args.pop(0)
        if a == '--only': only = args.pop(0)
        elif a == '--tests': tests = True
        elif a == '--tier': tier = args.pop(0)
    muts = json.load(open(os.path.join(V, 'selftest', 'mutants.json')))
    stable = set(json.load(open('/root/.vp/BASELINE.json'))['stable_pass']) if tests else set()
    res = []
    for m in muts:
        if only and only not in m['id']:
            continue
        S = tempfile.mkdtemp(prefix='dimarray-verif-mut.')
        try:
            repo = os.path.join(S, 'repo')
            os.makedirs(repo)
            subprocess.check_call("cd /repo && git ls-files -z | xargs -0 cp --parents -t %s && cp dimarray/_version.py %s/dimarray/" % (repo, repo), shell=True)
            if 'revert' in m:
                r = subprocess.run("cd %s && git -C /repo show %s -- dimarray | patch -R -p1 -s --no-backup-if-mismatch" % (repo, m['revert']), shell=True, stdout=subprocess.PIPE, stderr=subprocess.STDOUT)
                if r.returncode != 0:
                    print("MUTANT %s: revert does not apply - skipped (%s)" % (m['id'], r.stdout.decode()[-100:].strip()))
                    res.append((m['id'], 'stale'))
                    continue
            else:
                p = os.path.join(repo, m['file'])
                s = open(p).read()
                if s.count(m['old']) != m.get('count', 1):
                    print("MUTANT %s: pattern occurs %d times (expected %d) - skipped" % (m['id'], s.count(m['old']), m.get('count', 1)))
                    res.append((m['id'], 'stale'))
                    continue
                open(p, 'w').write(s.replace(m['old'], m['new']))
            tst = ''
            if tests:
                ok = baseline_pass(repo)
                killed = sorted(stable - ok)
                tst = ' baseline-tests-killed=%d' % len(killed)
            det = []
            for P in m['properties']:
                env = dict(os.environ, VERIF_REPO=repo, VERIF_EVIDENCE_DIR=os.path.join(S, 'ev'), VERIF_REPLAY_DIR=os.path.join(S, 'replays'))
                t = time.time()
                out = subprocess.run([os.path.join(V, 'check'), P, '--tier', tier], env=env, stdout=subprocess.PIPE, stderr=subprocess.STDOUT, cwd=V).stdout.decode()
                nv = len([l for l in out.splitlines() if l.startswith('VIOLATION')])
                ninc = len([l for l in out.splitlines() if l.startswith('INCONCLUSIVE')])
                det.append('%s:%d violations,%d inconclusive,%.0fs' % (P, nv, ninc, time.time() - t))
                if nv:
                    res.append((m['id'], 'detected'))
                    break
            else:
                res.append((m['id'], 'MISSED'))
            print("MUTANT %s -> %s  [%s]%s" % (m['id'], res[-1][1], '; '.join(det), tst))
            sys.stdout.flush()
        finally:
            shutil.rmtree(S, ignore_errors=True)
    missed = [i for i, r in res if r == 'MISSED']
    print("selftest: %d mutants, %d detected, %d missed %r, %d stale" % (len(res), len([1 for _, r in res if r == 'detected']), len(missed), missed, len([1 for _, r in res if r == 'stale'])))
    return 1 if missed else 0

if __name__ == '__main__':
    sys.exit(main())
