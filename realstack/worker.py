#!/venv/bin/python
"""Real-stack worker: runs harness functions concretely with the real NumPy and the real dimarray.
Usage: worker.py <jobs.json> <results.json>
job: {id, mod, fn, params, inputs, model_obs?}   result: {id, status, obs, regions, mismatch, err}
status: 'holds' (harness verdict True), 'violates' (verdict False), 'reject' (inputs outside the
template's assumptions), 'error' (harness crashed)"""
import os
import sys
import json
import importlib
import warnings
import traceback

HERE = os.path.dirname(os.path.dirname(os.path.abspath(__file__)))
REPO = os.environ.get('VERIF_REPO', '/repo')


def main():
    sys.dont_write_bytecode = True
    try:
        sys.set_int_max_str_digits(0)
    except Exception:
        pass
    sys.path[:0] = [REPO, HERE]
    warnings.simplefilter('ignore')
    import io
    import contextlib
    import numpy as np
    assert not hasattr(np, '_realnames'), "real numpy expected"
    with contextlib.redirect_stdout(io.StringIO()):
        import dimarray as da
    assert os.path.abspath(da.__file__).startswith(os.path.abspath(REPO)), da.__file__
    from vlib import ctx as ctxmod
    jobs = json.load(open(sys.argv[1]))
    results = []
    saved_opts = dict(da.rcParams)
    for job in jobs:
        r = {'id': job['id']}
        try:
            mod = importlib.import_module('props.' + job['mod'])
            fn = getattr(mod, job['fn'])
            c = ctxmod.Ctx(np, da, False, inputs=job['inputs'])
            c.monitor = job.get('monitor')
            try:
                with np.errstate(all='ignore'), contextlib.redirect_stdout(io.StringIO()):
                    ok = fn(c, **job['params'])
                r['status'] = 'holds' if ok else 'violates'
            except ctxmod.Reject:
                r['status'] = 'reject'
            finally:
                da.rcParams.update(saved_opts)
            r['obs'] = ctxmod.to_json(c.obs)
            r['regions'] = c.regions
            if job.get('model_obs') is not None and r['status'] != 'reject':
                r['mismatch'] = ctxmod.obs_equal(job['model_obs'], r['obs'], rank=c.render_rank)
        except BaseException as e:
            r['status'] = 'error'
            r['err'] = "%s: %s" % (type(e).__name__, e)
            r['tb'] = traceback.format_exc()[-1500:]
        results.append(r)
    json.dump(results, open(sys.argv[2], 'w'))


if __name__ == '__main__':
    main()
