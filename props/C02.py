"""C02 - label slices are inclusive bounding boxes; position slices stay NumPy-like."""
from vlib.ctx import Ref, same

EXPLANATION = ("a[start:stop:step] through the real DimArray.__getitem__ / _get_indices / Axis.loc / locate_slice / "
               "_locate_slice_strict with symbolic labels, bounds and data; oracle: inclusive box in traversal direction "
               "(monotonic numeric axes) or first-to-second existing label (other axes); position slices vs python list slicing")
ASSUMPTIONS = ["labels on an axis are pairwise distinct, except in the mono-ties templates (monotonic, not strictly: neighbouring labels may coincide)", "for the bounding-box statement the axis is monotonic with distinct end points"]
BOUNDS = {'quick': {'n': '0..4', 'step': [None, 1, 2, 3, -1, -2], 'nd': '1..2'},
          'thorough': {'n': '0..5', 'step': [None, 1, 2, 3, -1, -2], 'nd': '1..3'}}
DEADLINE = {'quick': 100, 'thorough': 900}
STEPS = [None, 1, 2, 3, -1, -2]


def _bound(ctx, which, kind, name):
    if which == 'none':
        return None
    return ctx.label(kind, name)


def box_positions(ctx, labels, start, stop, step, inc):
    """oracle for monotonic numeric axes"""
    n = len(labels)
    fwd = step is None or step > 0

    def at_or_after(l, b):      # in axis direction
        return (l >= b) if inc else (l <= b)

    def at_or_before(l, b):
        return (l <= b) if inc else (l >= b)
    sel = []
    rng = range(n) if fwd else range(n - 1, -1, -1)
    for p in rng:
        l = labels[p]
        if fwd:
            c1 = True if start is None else at_or_after(l, start)
            c2 = True if stop is None else at_or_before(l, stop)
        else:
            c1 = True if start is None else at_or_before(l, start)
            c2 = True if stop is None else at_or_after(l, stop)
        if c1 and c2:
            sel.append(p)
    return sel[::abs(step or 1)]


def strict_positions(ctx, labels, start, stop, step):
    """oracle for non-numeric / non-monotonic axes: None -> IndexError expected"""
    n = len(labels)

    def find(b):
        for i, l in enumerate(labels):
            if l == b:
                return i
        return None
    fwd = step is None or step > 0
    i0 = None if start is None else find(start)
    i1 = None if stop is None else find(stop)
    if (start is not None and i0 is None) or (stop is not None and i1 is None):
        return None
    if fwd:
        a = 0 if i0 is None else i0
        b = n - 1 if i1 is None else i1
        return list(range(a, b + 1, step or 1))
    a = n - 1 if i0 is None else i0
    b = 0 if i1 is None else i1
    return list(range(a, b - 1, step))


def slice_1d(ctx, n, lkind, order, sk, ek, step, bkind, via='getitem', prime=False, under=None):
    ctx.under(under)
    """1-D array, label slice on a monotonic / non-monotonic / str axis"""
    labels = ctx.labels(lkind, n, 'l', order=order if n >= 2 else None)
    start = _bound(ctx, sk, bkind, 'start')
    stop = _bound(ctx, ek, bkind, 'stop')
    cells = ctx.cells('f', n, 'v')
    a = ctx.mk(['x'], [labels], cells, lkinds=[lkind])
    if prime:      # the axis has answered is_monotonic() before: its cached state must not matter
        a.axes[0].is_monotonic()
    ref = Ref(['x'], [labels], cells)
    sl = slice(start, stop, step)
    if via == 'getitem':
        r = ctx.call(lambda: a[sl])
    elif via == 'take':
        r = ctx.call(lambda: a.take(sl, axis='x'))
    elif via == 'loc':
        r = ctx.call(lambda: a.loc[sl])
    else:
        r = ctx.call(lambda: a.sel(x=sl))
    strict = lkind == 'U' or order == 'nonmono'
    if strict:
        pos = strict_positions(ctx, labels, start, stop, step)
    else:
        inc = True if n < 2 else bool(labels[0] < labels[n - 1])
        pos = box_positions(ctx, labels, start, stop, step, inc)
    if n == 0:
        pass
    if pos is None:
        return ctx.done(r == ('exc', 'IndexError'), ctx.observe(r[1]) if r[0] == 'ok' else r[1])
    if r[0] != 'ok':
        return ctx.done(False, r[1])
    return ctx.done(same(ctx, r[1], ref.select([pos])), ctx.observe(r[1]))


def slice_2d(ctx, n, m, lkind, order, sk, ek, step, other, dim, via='getitem'):
    """2-D array: label slice in dimension `dim`, another index kind in the other dimension"""
    ls = ctx.labels(lkind, n, 'l', order=order if n >= 2 else None)
    lo = ctx.labels('i', m, 'o')
    start = _bound(ctx, sk, lkind, 'start')
    stop = _bound(ctx, ek, lkind, 'stop')
    if dim == 0:
        dims, labels, lk = ['x', 'y'], [ls, lo], [lkind, 'i']
    else:
        dims, labels, lk = ['y', 'x'], [lo, ls], ['i', lkind]
    cells = ctx.cells('f', n * m, 'v')
    a = ctx.mk(dims, labels, cells, lkinds=lk)
    ref = Ref(dims, labels, cells)
    sl = slice(start, stop, step)
    if other == 'scalar':
        oi = ctx.choice('oi', m)
        oidx, osel = lo[oi], oi
    elif other == 'list':
        oi = [ctx.choice('oi0', m), ctx.choice('oi1', m)]
        oidx, osel = [lo[i] for i in oi], oi
    elif other == 'full':
        oidx, osel = slice(None), list(range(m))
    else:  # mask
        bits = [ctx.bool('mb%d' % i) for i in range(m)]
        bits = [bool(b) for b in bits]
        oidx, osel = ctx.nparray(bits, kind='b'), [i for i, b in enumerate(bits) if b]
    idx = (sl, oidx) if dim == 0 else (oidx, sl)
    name = dims[dim]
    if via == 'getitem':
        r = ctx.call(lambda: a[idx])
    elif via == 'take-axis-name':
        r = ctx.call(lambda: a.take(sl, axis=name))
    elif via == 'take-axis-pos':
        r = ctx.call(lambda: a.take(sl, axis=dim))
    elif via == 'take-axis-neg':
        r = ctx.call(lambda: a.take(sl, axis=dim - 2))
    elif via == 'take-dict-name':
        r = ctx.call(lambda: a.take({name: sl}))
    elif via == 'take-dict-pos':
        r = ctx.call(lambda: a.take({dim: sl}))
    elif via == 'take-dict-neg':
        r = ctx.call(lambda: a.take({dim - 2: sl}))
    elif via == 'loc-dict':
        r = ctx.call(lambda: a.loc[{name: sl}])
    elif via == 'sel':
        r = ctx.call(lambda: a.sel(**{name: sl}))
    else:
        raise ValueError(via)
    strict = lkind == 'U' or order == 'nonmono'
    if strict:
        pos = strict_positions(ctx, ls, start, stop, step)
    else:
        inc = True if n < 2 else bool(ls[0] < ls[1])
        pos = box_positions(ctx, ls, start, stop, step, inc)
    if pos is None:
        return ctx.done(r == ('exc', 'IndexError'), r[1] if r[0] != 'ok' else ctx.observe(r[1]))
    if r[0] != 'ok':
        return ctx.done(False, r[1])
    sel = [pos, osel] if dim == 0 else [osel, pos]
    return ctx.done(same(ctx, r[1], ref.select(sel)), ctx.observe(r[1]))


def slice_nd(ctx, shape, kinds, step=None, order='inc', position=False, ellipsis=False):
    """N-d array with unequal sizes: a (label or position) slice in one dimension next to scalars / lists / full slices"""
    nd = len(shape)
    dims = ['x', 'y', 'z', 'w'][:nd]
    lks = ['i'] * nd
    # the other dimensions are kept increasing here (their lookup in any order is C01's business): one path for the argsort
    labels = [ctx.labels('i', n, 'l%s_' % d, order=((order if k == 'slice' else 'inc') if n >= 2 else None)) for d, n, k in zip(dims, shape, kinds)]
    ncell = 1
    for n in shape:
        ncell *= n
    cells = ctx.cells('f', ncell, 'v')
    a = ctx.mk(dims, labels, cells, lkinds=lks)
    ref = Ref(dims, labels, cells)
    idx, sel = [], []
    for d, n, k, l in zip(dims, shape, kinds, labels):
        if k == 'full':
            idx.append(slice(None)); sel.append(list(range(n)))
        elif k == 'scalar':
            i = ctx.choice('c%s' % d, n)
            idx.append(i if position else l[i]); sel.append(i)
        elif k == 'list':
            i0, i1 = ctx.choice('c%s0' % d, n), ctx.choice('c%s1' % d, n)
            idx.append([i0, i1] if position else [l[i0], l[i1]]); sel.append([i0, i1])
        elif k == 'slice' and position:
            i0, i1 = ctx.choice('s%s0' % d, n + 1), ctx.choice('s%s1' % d, n + 1)
            sl = slice(i0 if i0 < n else None, i1 if i1 < n else None, step)
            idx.append(sl); sel.append(list(range(n))[sl])
        else:
            start = ctx.label('i', 'start%s' % d)
            stop = ctx.label('i', 'stop%s' % d) if step != 'open' else None
            st = None if step == 'open' else step
            idx.append(slice(start, stop, st))
            inc = True if n < 2 else bool(l[0] < l[1])
            sel.append(box_positions(ctx, l, start, stop, st, inc))
    tup = tuple(idx)
    if ellipsis:
        # NumPy's rule: one Ellipsis stands for the run of full slices it replaces (possibly an empty run)
        fulls = [j for j, k in enumerate(kinds) if k == 'full']
        if fulls:
            j0 = fulls[0]
            j1 = j0
            while j1 + 1 < nd and kinds[j1 + 1] == 'full':
                j1 += 1
            tup = tup[:j0] + (Ellipsis,) + tup[j1 + 1:]
        else:
            tup = ((Ellipsis,) + tup) if ellipsis == 'front' else (tup + (Ellipsis,))
    r = ctx.call(lambda: (a.ix[tup] if position else a[tup]))
    if r[0] != 'ok':
        return ctx.done(False, r[1])
    return ctx.done(same(ctx, r[1], ref.select(sel)), ctx.observe(r[1]))


def pos_slices(ctx, n, m, lkind, via, under=None):
    ctx.under(under)
    """position slices (.ix / iloc / take(indexing='position')): exactly python list slicing"""
    ls = ctx.labels(lkind, n, 'l')
    lo = ctx.labels('i', m, 'o')
    cells = ctx.cells('f', n * m, 'v')
    a = ctx.mk(['x', 'y'], [ls, lo], cells, lkinds=[lkind, 'i'])
    ref = Ref(['x', 'y'], [ls, lo], cells)
    oks = []
    obs = []
    bounds = [None] + list(range(-n - 1, n + 2))
    for i in bounds:
        for j in bounds:
            for k in STEPS:
                sl = slice(i, j, k)
                if via == 'ix':
                    r = ctx.call(lambda: a.ix[sl])
                elif via == 'iloc':
                    r = ctx.call(lambda: a.iloc[sl, :])
                else:
                    r = ctx.call(lambda: a.take(sl, axis=0, indexing='position'))
                pos = list(range(n))[sl]
                if r[0] != 'ok':
                    oks.append(False)
                    obs.append(r[1])
                    continue
                oks.append(same(ctx, r[1], ref.select([pos, list(range(m))])))
    return ctx.done(ctx.AND(*oks), obs)


def width_unsigned(ctx, ukind, order):
    """decided by its real-stack replay (dtype widths are not modelled): a monotonic axis stored as unsigned integers, where
    negation and differences wrap; the label slice is still the inclusive bounding box"""
    np = ctx.np
    lab = [10, 20, 30, 40, 50] if order == 'inc' else [50, 40, 30, 20, 10]
    a = ctx.da.DimArray(np.array([float(l) / 10 for l in lab]), axes=[np.array(lab, dtype=ukind)], dims=['x'])
    oks = []
    obs = []
    for lo, hi, step in ((15, 45, None), (20, 40, None), (None, 35, None), (25, None, None), (15, 45, -1), (10, 50, -2), (0, 60, None), (41, 49, None), (20, 40, 2)):
        if order == 'inc':
            sl = slice(lo, hi, step) if (step is None or step > 0) else slice(hi, lo, step)
        else:
            sl = slice(hi, lo, step) if (step is None or step > 0) else slice(lo, hi, step)
        r = ctx.call(lambda: a[sl])
        if r[0] != 'ok':
            return ctx.done(False, r[1])
        keep = [l for l in lab if (lo is None or lo <= l) and (hi is None or l <= hi)]
        if step is not None:
            keep = keep[::-1][::-step] if step < 0 else keep[::step]
        obs.append(ctx.observe(r[1]))
        oks.append(r[1].axes['x'].values.tolist() == keep and r[1].values.tolist() == [float(l) / 10 for l in keep])
    return ctx.done(all(oks), obs)


def templates():
    ts = []

    def add(name, fn, tier='quick', cost=1.0, **params):
        ts.append({'name': name, 'fn': fn, 'params': params, 'tier': tier, 'cost': cost})
    for uk in ('uint8', 'uint16', 'uint64'):
        for order in ('inc', 'dec'):
            add('width-unsigned-%s-%s' % (uk, order), 'width_unsigned', cost=0.1, ukind=uk, order=order)
    # monotonic numeric axes, bounds anywhere
    for lkind, bkind in (('i', 'i'), ('f', 'f'), ('i', 'f')):
        for n in (0, 1, 2, 3, 4, 5):
            orders = ['inc', 'dec'] if n >= 2 else [None]
            for order in orders:
                for sk in ('sym', 'none'):
                    for ek in ('sym', 'none'):
                        for step in STEPS:
                            tier = 'quick' if (n <= 3 or (n == 4 and lkind == 'i' and bkind == 'i')) else 'thorough'
                            if lkind != 'i' and n >= 3 and step in (3,):
                                tier = 'thorough'
                            add('mono-%s%s-n%d-%s-%s-%s-step%s' % (lkind, bkind, n, order, sk, ek, step), 'slice_1d', tier,
                                cost=0.05 * (n + 1) ** 2, n=n, lkind=lkind, order=order, sk=sk, ek=ek, step=step, bkind=bkind)
    for lkind, order in (('i', 'inc'), ('i', 'dec'), ('f', 'dec'), ('U', None), ('i', 'nonmono')):
        for step in STEPS:
            add('primed-%s-%s-step%s' % (lkind, order, step), 'slice_1d', cost=0.8, n=3, lkind=lkind, order=order, sk='sym', ek='sym', step=step, bkind=lkind, prime=True)
    # explicit label entry points on arrays created under indexing.by = 'position'
    for via in ('loc', 'sel'):
        for step in (None, -1):
            add('mono-via-%s-under-position-step%s' % (via, step), 'slice_1d', cost=0.5, n=3, lkind='i', order='inc' if step is None else 'dec', sk='sym', ek='sym', step=step, bkind='i', via=via, under={'indexing.by': 'position'})
    for via in ('iloc', 'take'):
        add('pos-%s-under-position' % via, 'pos_slices', cost=2.0, n=3, m=2, lkind='i', via=via, under={'indexing.by': 'position'})
    # monotonic axes with repeated labels (the bounding box takes every position whose label lies within the bounds)
    for order in ('inc-ties', 'dec-ties'):
        for n in (3, 4):
            for step in (None, -1, 2):
                add('mono-ties-%s-n%d-step%s' % (order, n, step), 'slice_1d', 'quick' if n == 3 or step is None else 'thorough', cost=0.5 * n, n=n, lkind='i', order=order, sk='sym', ek='sym', step=step, bkind='i')
        add('mono-ties-%s-open' % order, 'slice_1d', cost=1, n=3, lkind='f', order=order, sk='sym', ek='none', step=None, bkind='f')
    # spellings
    for via in ('take', 'loc', 'sel'):
        for step in (None, -1):
            add('mono-via-%s-step%s' % (via, step), 'slice_1d', cost=0.5, n=3, lkind='i', order='dec', sk='sym', ek='sym', step=step, bkind='i', via=via)
    # strict path: str axes (any order) and non-monotonic numeric axes
    for lkind, order in (('U', None), ('i', 'nonmono'), ('f', 'nonmono')):
        for n in (0, 1, 2, 3, 4):
            if order == 'nonmono' and n < 3:
                continue
            for sk in ('sym', 'none'):
                for ek in ('sym', 'none'):
                    for step in STEPS:
                        tier = 'quick' if n <= 3 else 'thorough'
                        add('strict-%s-n%d-%s-%s-step%s' % (lkind, n, sk, ek, step), 'slice_1d', tier, cost=0.1 * (n + 1) ** 2,
                            n=n, lkind=lkind, order=order, sk=sk, ek=ek, step=step, bkind=lkind)
    # N-d combination
    for dim in (0, 1):
        for other in ('scalar', 'list', 'full', 'mask'):
            for lkind, order in (('i', 'inc'), ('i', 'dec'), ('U', None), ('f', 'nonmono')):
                for step in (None, 2, -1):
                    tier = 'quick' if step in (None, -1) else 'thorough'
                    add('2d-dim%d-%s-%s-%s-step%s' % (dim, other, lkind, order, step), 'slice_2d', tier, cost=3.0,
                        n=3, m=2, lkind=lkind, order=order, sk='sym', ek='sym', step=step, other=other, dim=dim)
    # the sliced dimension designated through axis= / a {dimension: slice} mapping, by name, position and negative position
    for via in ('take-axis-name', 'take-axis-pos', 'take-axis-neg', 'take-dict-name', 'take-dict-pos', 'take-dict-neg', 'loc-dict', 'sel'):
        for dim in (0, 1):
            add('2d-via-%s-dim%d' % (via, dim), 'slice_2d', cost=2.0, n=3, m=2, lkind='i', order='inc' if dim else 'dec', sk='sym', ek='sym', step=None if dim else -1, other='full', dim=dim, via=via)
    # 3-D / 4-D arrays with unequal sizes: slice next to scalars and lists in every arrangement
    import itertools
    for kinds in set(itertools.permutations(['slice', 'list', 'full'])) | set(itertools.permutations(['slice', 'list', 'scalar'])) | set(itertools.permutations(['slice', 'scalar', 'full'])):
        for step in (None, -1, 'open'):
            for position in (False, True):
                if position and step == 'open':
                    continue
                add('nd-%s-step%s-%s' % ('-'.join(kinds), step, 'pos' if position else 'label'), 'slice_nd', 'quick' if step in (None, 'open') or kinds[0] != 'full' else 'thorough', cost=2.5,
                    shape=[2, 3, 4], kinds=list(kinds), step=step, order='inc' if step != -1 else 'dec', position=position)
    # Ellipsis in the key, before / after / around the slice
    for kinds in (['full', 'full', 'slice'], ['slice', 'full', 'full'], ['scalar', 'full', 'slice'], ['full', 'slice', 'scalar'], ['full', 'scalar', 'slice'], ['slice', 'full', 'list'],
                  ['slice', 'scalar', 'scalar']):
        for position in (False, True):
            for step in (None, -1):
                add('nd-ellipsis-%s-step%s-%s' % ('-'.join(kinds), step, 'pos' if position else 'label'), 'slice_nd', cost=2.5, shape=[2, 3, 4], kinds=kinds, step=step,
                    order='inc' if step != -1 else 'dec', position=position, ellipsis='front' if kinds[0] == 'slice' and 'full' not in kinds else True)
    add('nd-4d-full-slice-list-scalar', 'slice_nd', cost=4, shape=[2, 3, 2, 3], kinds=['full', 'slice', 'list', 'scalar'])
    add('nd-4d-scalar-list-slice-full', 'slice_nd', cost=4, shape=[3, 2, 3, 2], kinds=['scalar', 'list', 'slice', 'full'], step='open')
    # position slices
    for via in ('ix', 'iloc', 'take'):
        for n in (0, 1, 3):
            add('pos-%s-n%d' % (via, n), 'pos_slices', cost=2.0, n=n, m=2, lkind='i' if via != 'iloc' else 'U', via=via)
    return ts
