"""C06 - align() is a set union / intersection that neither invents nor loses data."""
import itertools
from vlib.ctx import Ref, same
from props.C01 import find
from props.C04 import mk_operand

EXPLANATION = ("align(arrays, join, sort, axis) through the real _get_aligned_axes / _common_axis / Axis.union / Axis.intersection / "
               "reindex_axis with symbolic labels of every input (distinct within an axis, unconstrained across inputs) and symbolic data; "
               "oracle: identical axes on shared dimensions, label set == union / intersection each once, sortedness rule, own data at own "
               "labels and NaN elsewhere, untouched foreign dimensions, unmodified inputs")
ASSUMPTIONS = ["labels on an axis are pairwise distinct", "data cells are finite"]
BOUNDS = {'quick': {'arrays': '1..3', 'labels per axis': '0..3', 'dims per array': '1..2'},
          'thorough': {'arrays': '1..4', 'labels per axis': '0..3', 'dims per array': '1..3'}}
DEADLINE = {'quick': 150, 'thorough': 1500}
QUICK_SAMPLE_COST = 30.0


def _strict(ctx, ls, inc):
    return ctx.AND(*[(ls[i] < ls[i + 1]) if inc else (ls[i] > ls[i + 1]) for i in range(len(ls) - 1)])


def align_n(ctx, specs, join='outer', sort=False, axis=None, lk=None, dataset_at=None, prime=False, ds_extra=False, under=None):
    ctx.under(under)
    """specs: list of (dims, sizes) per input array"""
    lk = lk or {}
    arrs = []
    refs = []
    for i, (dims, sizes) in enumerate(specs):
        a, r = mk_operand(ctx, 'abcd'[i], dims, sizes, [lk.get('%s:%s' % ('abcd'[i], d), lk.get(d, 'i')) for d in dims], 'f')
        if prime == 'relabel':
            # a label is edited in place and then put right again, the axis having been asked about its order in between:
            # nothing cached about the temporary labels may survive
            for ax, labs in zip(a.axes, r.labels):
                if len(labs) >= 2:
                    for j in (len(labs) // 2,):
                        tmp = ctx.int('tmp%d_%s_%s' % (j, 'abcd'[i], ax.name))
                        ax[j] = tmp
                        ax.is_monotonic()
                        ax[j] = labs[j]
        elif prime:
            for ax in a.axes:
                ax.is_monotonic()
        arrs.append(a)
        refs.append(r)
    inputs = list(arrs)
    if dataset_at is not None:
        ds = ctx.da.Dataset()
        if ds_extra:
            # variables that lack the aligned dimensions, stored before and after the one that has them
            ek = ctx.labels('i', 2, 'ek')
            ec = ctx.cells('f', 2, 'ec')
            ds['a0'] = ctx.mk(['k'], [ek], ec, register=False)
        ds['v'] = arrs[dataset_at]
        if ds_extra:
            ds['z9'] = ctx.mk(['k'], [ek], ec, register=False)
        inputs[dataset_at] = ds
    kw = {}
    if join != 'outer':
        kw['join'] = join
    if sort:
        kw['sort'] = True
    if axis is not None:
        kw['axis'] = axis
    given = list(inputs)
    r = ctx.call(lambda: ctx.da.align(inputs, **kw))
    # the caller's list is an input too: same objects, same order
    list_ok = len(inputs) == len(given) and all(x is y for x, y in zip(inputs, given))
    if any(0 in ref.shape for ref in refs):
        ctx.region('C06.empty-axis', True)
    if r[0] != 'ok':
        return ctx.done(False, r[1])
    outs = list(r[1])
    if len(outs) != len(arrs):
        return ctx.done(False, ctx.observe(outs))
    if dataset_at is not None:
        if not isinstance(outs[dataset_at], ctx.da.Dataset):
            return ctx.done(False, ctx.observe(outs))
        extra_ok = True
        if ds_extra:
            dso = outs[dataset_at]
            extra_ok = list(dso.keys()) == ['a0', 'v', 'z9'] and ctx.AND(same(ctx, dso['a0'], Ref(['k'], [ek], ec)), same(ctx, dso['z9'], Ref(['k'], [ek], ec)))
        outs[dataset_at] = outs[dataset_at]['v']
    oks = [list_ok]
    if dataset_at is not None:
        oks.append(extra_ok)
    alldims = []
    for ref in refs:
        for d in ref.dims:
            if d not in alldims:
                alldims.append(d)
    for o, ref in zip(outs, refs):
        if not isinstance(o, ctx.da.DimArray) or tuple(o.dims) != ref.dims:
            return ctx.done(False, ctx.observe(outs))
    for d in alldims:
        have = [i for i, ref in enumerate(refs) if d in ref.dims]
        srcs = [refs[i].labels[refs[i].dims.index(d)] for i in have]
        gots = [outs[i].axes[d].values.tolist() for i in have]
        if axis is not None and d != axis:
            # dimensions other than the requested one are left alone
            for g, s in zip(gots, srcs):
                oks.append(ctx.eqlist(g, s))
            continue
        g0 = gots[0]
        for g in gots[1:]:
            oks.append(ctx.eqlist(g, g0))                       # identical axes on every output
        for i, j in itertools.combinations(range(len(g0)), 2):
            oks.append(ctx.NOT(ctx.eq(g0[i], g0[j])))           # each label once
        if join == 'outer':
            for s in srcs:
                for l in s:
                    oks.append(ctx.OR(*[ctx.eq(l, g) for g in g0]))
            for g in g0:
                oks.append(ctx.OR(*[ctx.eq(g, l) for s in srcs for l in s]))
        else:
            for g in g0:
                for s in srcs:
                    oks.append(ctx.OR(*[ctx.eq(g, l) for l in s]))
            for l in srcs[0]:
                inall = ctx.AND(*[ctx.OR(*[ctx.eq(l, m) for m in s]) for s in srcs[1:]])
                if inall:
                    oks.append(ctx.OR(*[ctx.eq(l, g) for g in g0]))
        # ordering rule
        kind = lk.get(d, 'i')
        if sort:
            oks.append(_strict(ctx, g0, True))
        else:
            allinc = ctx.AND(*[_strict(ctx, s, True) for s in srcs])
            alldec = ctx.AND(*[_strict(ctx, s, False) for s in srcs])
            onlysingle = all(len(s) <= 1 for s in srcs)
            if not onlysingle:
                if allinc:
                    if any(len(s) == 1 for s in srcs) and not alldec:
                        pass
                    oks.append(_strict(ctx, g0, True))
                elif alldec:
                    if any(len(s) == 1 for s in srcs):
                        pass
                    oks.append(_strict(ctx, g0, False))
    # data: own values at own labels, NaN elsewhere
    for o, ref in zip(outs, refs):
        rl = [ax.values.tolist() for ax in o.axes]
        if tuple(o.values.shape) != tuple(len(g) for g in rl):
            return ctx.done(False, ctx.observe(outs))
        vals = ctx.flat(o.values.tolist()) if ref.dims else [o.values.tolist()]
        for k, pos in enumerate(itertools.product(*[range(len(g)) for g in rl])):
            p = []
            for dpos, (l, g) in enumerate(zip(ref.labels, rl)):
                i = find(l, g[pos[dpos]])
                if i is None:
                    p = None
                    break
                p.append(i)
            if p is None:
                oks.append(ctx.isnan(vals[k]))
            else:
                oks.append(ctx.eq(vals[k], ref.at(p)))
    return ctx.done(ctx.AND(*oks), ctx.observe(outs))


def templates():
    ts = []

    def add(name, fn, tier='quick', cost=1.0, **params):
        ts.append({'name': name, 'fn': fn, 'params': params, 'tier': tier, 'cost': cost})
    pc = {(1, 1): 0.05, (1, 2): 0.1, (2, 1): 0.1, (2, 2): 1, (1, 3): 0.4, (3, 1): 0.4, (2, 3): 8, (3, 2): 8, (3, 3): 60, (0, 2): 0.1, (2, 0): 0.1, (0, 0): 0.05}
    for lk in 'ifU':
        for (na, nb), c in sorted(pc.items()):
            for join in ('outer', 'inner'):
                for sort in (False, True):
                    if (na, nb) == (3, 3) and (lk != 'i' or sort):
                        continue
                    tier = 'quick' if c <= 1 or (c == 8 and lk == 'i' and not sort) else 'thorough'
                    add('2arr-%s-%dx%d-%s-%s' % (lk, na, nb, join, 'sort' if sort else 'nosort'), 'align_n', tier, c,
                        specs=[[['x'], [na]], [['x'], [nb]]], join=join, sort=sort, lk={'x': lk})
    add('mixed-int-real', 'align_n', cost=1, specs=[[['x'], [2]], [['x'], [2]]], lk={'a:x': 'i', 'b:x': 'f'})
    add('mixed-real-int-inner', 'align_n', cost=1, specs=[[['x'], [2]], [['x'], [2]]], lk={'a:x': 'f', 'b:x': 'i'}, join='inner')
    add('primed', 'align_n', cost=1, specs=[[['x'], [2]], [['x'], [2]]], prime=True)
    add('relabelled-2x2', 'align_n', cost=2, specs=[[['x'], [2]], [['x'], [2]]], prime='relabel')
    add('relabelled-3x2', 'align_n', cost=8, specs=[[['x'], [3]], [['x'], [2]]], prime='relabel')
    add('relabelled-3x2-inner', 'align_n', 'thorough', cost=8, specs=[[['x'], [3]], [['x'], [2]]], prime='relabel', join='inner')
    add('primed-3x2-sort', 'align_n', cost=8, specs=[[['x'], [3]], [['x'], [2]]], prime=True, sort=True)
    # one array, three arrays
    for sort in (False, True):
        add('1arr-%s' % sort, 'align_n', cost=0.3, specs=[[['x', 'y'], [3, 2]]], sort=sort, lk={'y': 'U'})
        for join in ('outer', 'inner'):
            add('3arr-2-1-2-%s-%s' % (join, sort), 'align_n', cost=6, specs=[[['x'], [2]], [['x'], [1]], [['x'], [2]]], join=join, sort=sort)
            add('3arr-2-2-2-%s-%s' % (join, sort), 'align_n', 'thorough', cost=60, specs=[[['x'], [2]], [['x'], [2]], [['x'], [2]]], join=join, sort=sort)
    add('4arr', 'align_n', 'thorough', cost=40, specs=[[['x'], [2]], [['x'], [1]], [['x'], [1]], [['x'], [2]]])
    # dimension overlap: a dimension present in one input only, partially shared dims, different orders
    for sort in (False, True):
        for join in ('outer', 'inner'):
            add('dims-xy-x-%s-%s' % (join, sort), 'align_n', cost=2, specs=[[['x', 'y'], [2, 3]], [['x'], [2]]], join=join, sort=sort, lk={'y': 'f'})
            add('dims-y-z-%s-%s' % (join, sort), 'align_n', cost=1, specs=[[['y'], [3]], [['z'], [2]]], join=join, sort=sort)
            add('dims-xy-yx-%s-%s' % (join, sort), 'align_n', cost=4, specs=[[['x', 'y'], [2, 2]], [['y', 'x'], [1, 2]]], join=join, sort=sort, lk={'y': 'U'})
            add('dims-xy-yz-%s-%s' % (join, sort), 'align_n', cost=2, specs=[[['x', 'y'], [2, 2]], [['y', 'z'], [2, 2]]], join=join, sort=sort)
    add('dims-xy-xy-2x2', 'align_n', 'thorough', cost=50, specs=[[['x', 'y'], [2, 2]], [['x', 'y'], [2, 2]]])
    add('dims-xy-xy-2x2-small', 'align_n', cost=6, specs=[[['x', 'y'], [2, 2]], [['x', 'y'], [2, 1]]])
    add('dims-xy-xy-both-differ', 'align_n', cost=6, specs=[[['x', 'y'], [1, 2]], [['x', 'y'], [2, 1]]])
    # axis= a single dimension whose name contains / is contained in the name of another dimension
    add('axis-name-substring-long', 'align_n', cost=2, specs=[[['t', 'time'], [2, 2]], [['t', 'time'], [2, 2]]], axis='time')
    add('axis-name-substring-short', 'align_n', cost=2, specs=[[['t', 'time'], [2, 2]], [['time', 't'], [2, 2]]], axis='t')
    add('axis-name-substring-x0', 'align_n', cost=2, specs=[[['x', 'x0'], [2, 1]], [['x0', 'x'], [2, 2]]], axis='x0', join='inner')
    # axis= a single dimension
    for sort in (False, True):
        add('axis-x-%s' % sort, 'align_n', cost=2, specs=[[['x', 'y'], [2, 2]], [['x', 'y'], [2, 2]]], axis='x', sort=sort)
        add('axis-y-%s' % sort, 'align_n', cost=2, specs=[[['x', 'y'], [2, 2]], [['y', 'x'], [2, 2]]], axis='y', sort=sort, join='inner')
    # a Dataset among the inputs
    add('dataset-extra-0', 'align_n', cost=3, specs=[[['x'], [2]], [['x'], [2]]], dataset_at=0, ds_extra=True)
    add('dataset-extra-1-2d', 'align_n', cost=4, specs=[[['x'], [2]], [['y', 'x'], [1, 2]]], dataset_at=1, ds_extra=True)
    add('dataset-extra-inner', 'align_n', cost=3, specs=[[['x'], [2]], [['x'], [2]]], dataset_at=1, ds_extra=True, join='inner')
    add('dataset-under-position', 'align_n', cost=3, specs=[[['x'], [2]], [['x'], [2]]], dataset_at=0, under={'indexing.by': 'position'})
    add('dataset-under-position-inner', 'align_n', cost=3, specs=[[['x'], [2]], [['x'], [2]]], dataset_at=1, join='inner', under={'indexing.by': 'position'})
    add('arrays-under-position', 'align_n', cost=3, specs=[[['x'], [2]], [['x'], [2]]], under={'indexing.by': 'position'})
    add('dataset-0', 'align_n', cost=2, specs=[[['x'], [2]], [['x'], [2]]], dataset_at=0)
    add('dataset-1-inner', 'align_n', cost=2, specs=[[['x', 'y'], [2, 2]], [['x'], [2]]], dataset_at=1, join='inner')
    return ts
