"""C10 - rearranging dimensions preserves every element's label coordinates."""
import itertools
from vlib.ctx import Ref, same
from props.C01 import DIMS

EXPLANATION = ("transpose / T / swapaxes / rollaxis / newaxis / squeeze / repeat / broadcast / broadcast_arrays through the real reshape.py "
               "and align.py code with symbolic labels and data for every arrangement in the bound; these operations do not branch on "
               "labels, so each case is one path whose obligation (all labels and cells, for all values) z3 discharges in EUF/LIA: "
               "result[coord] == input[coord restricted to the input's dims], axes travel with their dimension, attrs kept")
ASSUMPTIONS = ["labels on an axis are pairwise distinct"]
BOUNDS = {'quick': {'nd': '0..4', 'sizes': '1..3, distinct and equal lengths'}, 'thorough': {'nd': '0..4', 'sizes': '1..3'}}
DEADLINE = {'quick': 120, 'thorough': 900}
LK = ['i', 'U', 'f', 'i']


def _build(ctx, shape, tag='', dims=None, lkinds=None):
    nd = len(shape)
    dims = dims or DIMS[:nd]
    lkinds = lkinds or [LK[DIMS.index(d)] if d in DIMS else 'i' for d in dims]
    labels = [ctx.labels(k, n, 'l%s%s_' % (tag, d)) for d, n, k in zip(dims, shape, lkinds)]
    ncell = 1
    for n in shape:
        ncell *= n
    cells = ctx.cells('f', ncell, 'v' + tag)
    attrs = {'units': 'K', 'hist': [1, 2]}
    a = ctx.mk(dims, labels, cells, lkinds=lkinds, attrs=attrs)
    return a, Ref(dims, labels, cells), attrs


def _ok(ctx, r, exp, attrs, obs):
    if r[0] != 'ok':
        obs.append(r[1])
        return False
    obs.append(ctx.observe(r[1]))
    return same(ctx, r[1], exp, attrs=attrs)


def _spell(dims, order, how):
    if how == 'name':
        return [dims[i] for i in order]
    if how == 'pos':
        return list(order)
    return [dims[i] if k % 2 else i for k, i in enumerate(order)]


def permute(ctx, shape, dimnames=None):
    """transpose with every permutation (names, positions, mixed; list / varargs), T, swapaxes, rollaxis, and inverse compositions"""
    a, ref, attrs = _build(ctx, shape, dims=dimnames)
    nd = len(shape)
    dims = list(ref.dims)
    oks = []
    obs = []
    for perm in itertools.permutations(range(nd)):
        exp = ref.transpose(perm)
        for how in ('name', 'pos', 'mixed'):
            arg = _spell(dims, perm, how)
            oks.append(_ok(ctx, ctx.call(lambda: a.transpose(arg)), exp, attrs, obs))
        oks.append(_ok(ctx, ctx.call(lambda: a.transpose(*_spell(dims, perm, 'name'))), exp, attrs, obs))
        oks.append(_ok(ctx, ctx.call(lambda: a.transpose(tuple(perm))), exp, attrs, obs))
        inv = [perm.index(i) for i in range(nd)]
        oks.append(_ok(ctx, ctx.call(lambda: a.transpose(list(perm)).transpose(inv)), ref, attrs, obs))
        oks.append(_ok(ctx, ctx.call(lambda: a.transpose(_spell(dims, perm, 'name')).transpose(dims)), ref, attrs, obs))
    if nd <= 2:
        exp = ref.transpose(list(reversed(range(nd))))
        oks.append(_ok(ctx, ctx.call(lambda: a.T), exp, attrs, obs))
        oks.append(_ok(ctx, ctx.call(lambda: a.transpose()), exp, attrs, obs))
        oks.append(_ok(ctx, ctx.call(lambda: a.T.T), ref, attrs, obs))
    for i in range(nd):
        for j in range(nd):
            order = list(range(nd))
            order[i], order[j] = order[j], order[i]
            exp = ref.transpose(order)
            oks.append(_ok(ctx, ctx.call(lambda: a.swapaxes(i, j)), exp, attrs, obs))
            oks.append(_ok(ctx, ctx.call(lambda: a.swapaxes(dims[i], dims[j])), exp, attrs, obs))
            oks.append(_ok(ctx, ctx.call(lambda: a.swapaxes(dims[i], j)), exp, attrs, obs))
            oks.append(_ok(ctx, ctx.call(lambda: a.swapaxes(i, j).swapaxes(dims[i], dims[j])), ref, attrs, obs))
        for start in range(nd + 1):
            order = [k for k in range(nd) if k != i]
            order.insert(start if start <= i else start - 1, i)
            exp = ref.transpose(order)
            oks.append(_ok(ctx, ctx.call(lambda: a.rollaxis(i, start)), exp, attrs, obs))
            oks.append(_ok(ctx, ctx.call(lambda: a.rollaxis(dims[i], start)), exp, attrs, obs))
        exp = ref.transpose([i] + [k for k in range(nd) if k != i])
        oks.append(_ok(ctx, ctx.call(lambda: a.rollaxis(dims[i])), exp, attrs, obs))
    return ctx.done(ctx.AND(*oks), obs[:3])


def second_array(ctx, shape):
    """the same request (same argument objects) on a second array of the same rank whose dimensions are arranged differently, and
    then on the first one again: every answer is about the array it was asked of"""
    nd = len(shape)
    dims = DIMS[:nd]
    a, ra, attrs = _build(ctx, shape, tag='a')
    rot = dims[1:] + dims[:1]
    shape_b = shape[1:] + shape[:1]
    b, rb, _ = _build(ctx, shape_b, tag='b', dims=rot)
    oks = []
    obs = []

    def order_for(r, moved, start):
        i = list(r.dims).index(moved)
        order = [k for k in range(nd) if k != i]
        order.insert(start if start <= i else start - 1, i)
        return order
    for d in dims:
        for start in (0, nd):
            for arr, r in ((a, ra), (b, rb), (a, ra)):
                oks.append(_ok(ctx, ctx.call(lambda: arr.rollaxis(d, start)), r.transpose(order_for(r, d, start)), attrs, obs))
        for e in dims:
            if e == d:
                continue
            for arr, r in ((a, ra), (b, rb), (a, ra)):
                i, j = list(r.dims).index(d), list(r.dims).index(e)
                order = list(range(nd))
                order[i], order[j] = order[j], order[i]
                oks.append(_ok(ctx, ctx.call(lambda: arr.swapaxes(d, e)), r.transpose(order), attrs, obs))
    for perm in itertools.permutations(dims):
        names = list(perm)             # one list object, handed to both arrays
        for arr, r in ((a, ra), (b, rb), (a, ra)):
            oks.append(_ok(ctx, ctx.call(lambda: arr.transpose(names)), r.transpose([list(r.dims).index(x) for x in perm]), attrs, obs))
        oks.append(names == list(perm))
    return ctx.done(ctx.AND(*oks), obs[:3])


def _insert(ref, pos, name, labels):
    """reference: new dimension `name` with `labels` at position pos, input replicated along it"""
    dims = list(ref.dims)
    dims.insert(pos, name)
    ls = [list(l) for l in ref.labels]
    ls.insert(pos, list(labels))
    cells = []
    for p in itertools.product(*[range(len(l)) for l in ls]):
        src = [x for i, x in enumerate(p) if i != pos]
        cells.append(ref.at(src))
    return Ref(dims, ls, cells)


def newaxis_squeeze(ctx, shape):
    a, ref, attrs = _build(ctx, shape)
    nd = len(shape)
    oks = []
    obs = []
    vals = [ctx.label('i', 'n%d' % j) for j in range(2)]
    ctx.assume(vals[0] != vals[1])
    for pos in range(nd + 1):
        e1 = _insert(ref, pos, 'new', [None])
        oks.append(_ok(ctx, ctx.call(lambda: a.newaxis('new', pos=pos)), e1, attrs, obs))
        e2 = _insert(ref, pos, 'new', vals)
        oks.append(_ok(ctx, ctx.call(lambda: a.newaxis('new', values=list(vals), pos=pos)), e2, attrs, obs))
        oks.append(_ok(ctx, ctx.call(lambda: a.newaxis('new', values=ctx.nparray(vals, kind='i'), pos=pos)), e2, attrs, obs))
        oks.append(_ok(ctx, ctx.call(lambda: a.newaxis('new', values=2, pos=pos)), _insert(ref, pos, 'new', [0, 1]), attrs, obs))
        # newaxis -> squeeze is the identity (when the input has no other singleton for the bare squeeze)
        oks.append(_ok(ctx, ctx.call(lambda: a.newaxis('new', pos=pos).squeeze('new')), ref, attrs, obs))
        oks.append(_ok(ctx, ctx.call(lambda: a.newaxis('new', pos=pos).squeeze(pos)), ref, attrs, obs))
        # repeat a singleton axis
        oks.append(_ok(ctx, ctx.call(lambda: a.newaxis('new', pos=pos).repeat(list(vals), axis='new')), e2, attrs, obs))
        oks.append(_ok(ctx, ctx.call(lambda: a.newaxis('new', pos=pos).repeat(ctx.da.Axis(ctx.nparray(vals, kind='i'), 'new'))), e2, attrs, obs))
        oks.append(_ok(ctx, ctx.call(lambda: a.newaxis('new', pos=pos).repeat(list(vals), axis=pos)), e2, attrs, obs))
    oks.append(_ok(ctx, ctx.call(lambda: a.newaxis('new', pos=-1)), _insert(ref, nd, 'new', [None]), attrs, obs))
    r = ctx.call(lambda: a.newaxis(ref.dims[0] if nd else 'new', pos=0))
    if nd:
        oks.append(r == ('exc', 'ValueError'))
    # squeeze
    keepall = [i for i, n in enumerate(shape) if n != 1]
    exp_all = ref.select([list(range(n)) if n != 1 else 0 for n in shape])
    oks.append(_ok(ctx, ctx.call(lambda: a.squeeze()), exp_all, attrs, obs))
    for i, n in enumerate(shape):
        if n == 1:
            exp = ref.select([list(range(m)) if j != i else 0 for j, m in enumerate(shape)])
            oks.append(_ok(ctx, ctx.call(lambda: a.squeeze(i)), exp, attrs, obs))
            oks.append(_ok(ctx, ctx.call(lambda: a.squeeze(ref.dims[i])), exp, attrs, obs))
        else:
            # a non-singleton dimension cannot be squeezed: refused (ValueError) or left alone, never dropped
            r = ctx.call(lambda: a.squeeze(ref.dims[i]))
            oks.append(r == ('exc', 'ValueError') or (r[0] == 'ok' and same(ctx, r[1], ref)))
            r = ctx.call(lambda: a.squeeze(i))
            oks.append(r == ('exc', 'ValueError') or (r[0] == 'ok' and same(ctx, r[1], ref)))
        # repeat refuses non-singleton axes
        if n != 1:
            oks.append(ctx.call(lambda: a.repeat(list(vals), axis=i)) == ('exc', 'ValueError'))
    return ctx.done(ctx.AND(*oks), obs[:3])


def broadcast(ctx, shape, adims, tdims, tsizes, via='axes', tdiff=False, tnone=False):
    """a (dims adims) broadcast onto a target axis list tdims (superset, any order)"""
    a, ref, attrs = _build(ctx, shape, dims=adims)
    tlabels = []
    for d, n in zip(tdims, tsizes):
        if d in adims and shape[adims.index(d)] == n and not tdiff:
            tlabels.append(ref.labels[adims.index(d)])
        else:
            tlabels.append(ctx.labels(LK[DIMS.index(d)], n, 't%s_' % d))
    taxes = [ctx.da.Axis(ctx.nparray(l, kind=LK[DIMS.index(d)]), d) for d, l in zip(tdims, tlabels)]
    if tnone:     # the target's length-1 axes are bare ones (label None, as newaxis makes them): the array's own label stays
        taxes = [ctx.da.Axis([None], d) if (n == 1 and d in adims) else ax for d, n, ax in zip(tdims, tsizes, taxes)]
    if via == 'axes':
        target = taxes
    elif via == 'dimarray':
        n = 1
        for m in tsizes:
            n *= m
        target = ctx.mk(tdims, tlabels, [0.0] * n, lkinds=[LK[DIMS.index(d)] for d in tdims], register=False)
    else:
        from collections import OrderedDict
        target = OrderedDict((d, ctx.nparray(l, kind=LK[DIMS.index(d)])) for d, l in zip(tdims, tlabels))
    r = ctx.call(lambda: a.broadcast(target))
    cells = []
    for p in itertools.product(*[range(n) for n in tsizes]):
        src = []
        for d, n in zip(adims, shape):
            if d not in tdims:      # a length-1 dimension the target does not have is dropped
                src.append(0)
                continue
            x = p[tdims.index(d)]
            src.append(x if n == tsizes[tdims.index(d)] else 0)
        cells.append(ref.at(src))
    # dimensions the array already has keep the array's own labels (its axes travel with its data); only new dimensions take the target's
    elabels = [ref.labels[adims.index(d)] if (d in adims and shape[adims.index(d)] == n) else l for d, n, l in zip(tdims, tsizes, tlabels)]
    exp = Ref(tdims, elabels, cells)
    obs = []
    return ctx.done(_ok(ctx, r, exp, attrs, obs), obs)


def broadcast_arrays(ctx, specs):
    """specs: list of (dims, sizes); shared dims have equal labels or size 1"""
    arrs = []
    refs = []
    common = {}
    for i, (dims, sizes) in enumerate(specs):
        labels = []
        for d, n in zip(dims, sizes):
            if n != 1 and d in common and len(common[d]) == n:
                labels.append(common[d])
            else:
                l = ctx.labels(LK[DIMS.index(d)], n, 'l%d%s_' % (i, d))
                if n != 1:
                    common[d] = l
                labels.append(l)
        ncell = 1
        for n in sizes:
            ncell *= n
        cells = ctx.cells('f', ncell, 'v%d' % i)
        a = ctx.mk(dims, labels, cells, lkinds=[LK[DIMS.index(d)] for d in dims], attrs={'k': i})
        arrs.append(a)
        refs.append(Ref(dims, labels, cells))
    r = ctx.call(lambda: ctx.da.broadcast_arrays(*arrs))
    if r[0] != 'ok':
        return ctx.done(False, r[1])
    outs = list(r[1])
    alldims = []
    for ref in refs:
        for d in ref.dims:
            if d not in alldims:
                alldims.append(d)
    tl = []
    for d in alldims:
        cands = [ref.labels[ref.dims.index(d)] for ref in refs if d in ref.dims]
        big = [c for c in cands if len(c) != 1]
        tl.append(big[0] if big else cands[0])
    oks = []
    for o, ref in zip(outs, refs):
        cells = []
        for p in itertools.product(*[range(len(l)) for l in tl]):
            src = []
            for d, n in zip(ref.dims, ref.shape):
                x = p[alldims.index(d)]
                src.append(x if n == len(tl[alldims.index(d)]) else 0)
            cells.append(ref.at(src))
        oks.append(same(ctx, o, Ref(alldims, tl, cells)))
    return ctx.done(ctx.AND(*oks), ctx.observe(outs))


def broadcast_mismatch(ctx):
    """broadcast_arrays refuses arrays whose shared non-singleton axes carry different labels"""
    la = ctx.labels('i', 2, 'la')
    lb = ctx.labels('i', 2, 'lb')
    a = ctx.mk(['x'], [la], ctx.cells('f', 2, 'va'))
    b = ctx.mk(['x', 'y'], [lb, ctx.labels('i', 2, 'ly')], ctx.cells('f', 4, 'vb'))
    r = ctx.call(lambda: ctx.da.broadcast_arrays(a, b))
    equal = ctx.AND(la[0] == lb[0], la[1] == lb[1])
    if equal:
        return ctx.done(r[0] == 'ok', r[1] if r[0] != 'ok' else None)
    return ctx.done(r == ('exc', 'ValueError'), r[1] if r[0] != 'ok' else ctx.observe(list(r[1])))


def templates():
    ts = []

    def add(name, fn, tier='quick', cost=1.0, **params):
        ts.append({'name': name, 'fn': fn, 'params': params, 'tier': tier, 'cost': cost})
    shapes = [[], [3], [1], [2, 3], [2, 2], [1, 3], [2, 3, 1], [3, 2, 2], [2, 2, 2], [1, 2, 1], [2, 3, 1, 2], [2, 2, 2, 2], [1, 3, 1, 1]]
    for sh in shapes:
        nm = 'x'.join(map(str, sh)) or '0d'
        add('permute-%s' % nm, 'permute', 'quick', cost=0.2 * (1 + len(sh)) ** 3, shape=sh)
        add('newaxis-squeeze-%s' % nm, 'newaxis_squeeze', cost=0.5 * (1 + len(sh)), shape=sh)
    # broadcast onto target axis lists
    cases = [
        ([2], ['x'], ['x', 'y'], [2, 3]), ([2], ['x'], ['y', 'x'], [3, 2]), ([3], ['y'], ['x', 'y', 'z'], [2, 3, 2]),
        ([2, 3], ['x', 'y'], ['y', 'x'], [3, 2]), ([2, 2], ['x', 'y'], ['y', 'z', 'x'], [2, 2, 2]), ([2, 2], ['y', 'x'], ['x', 'y', 'z'], [2, 2, 2]),
        ([1, 3], ['x', 'y'], ['x', 'y'], [2, 3]), ([1, 3], ['x', 'y'], ['z', 'x', 'y'], [2, 2, 3]), ([3, 1], ['y', 'x'], ['x', 'y'], [2, 3]),
        ([], [], ['x', 'y'], [2, 2]), ([2], ['z'], ['w', 'z', 'x', 'y'], [2, 2, 1, 2]), ([2, 1, 2], ['x', 'y', 'z'], ['z', 'y', 'x'], [2, 3, 2]),
        ([2, 3], ['x', 'y'], ['x', 'y'], [2, 3]),
        # length-1 dimensions absent from the target are dropped, the kept ones (length 1 too) keep their labels
        ([1, 1, 3], ['x', 'y', 'z'], ['z', 'x'], [3, 1]), ([1, 2], ['x', 'y'], ['y'], [2]), ([1, 1], ['x', 'y'], ['y'], [1]),
        ([1, 2, 1], ['x', 'y', 'z'], ['z', 'w', 'y'], [1, 2, 2]),
    ]
    for k, (sh, ad, td, tsz) in enumerate(cases):
        for via in ('axes', 'dimarray', 'odict'):
            add('broadcast-%d-%s-onto-%s-%s' % (k, ''.join(ad) or '0', ''.join(td), via), 'broadcast', cost=0.5, shape=sh, adims=ad, tdims=td, tsizes=tsz, via=via)
        if 1 in tsz and any(d in ad for d, n in zip(td, tsz) if n == 1):
            add('broadcast-%d-%s-onto-%s-bare' % (k, ''.join(ad) or '0', ''.join(td)), 'broadcast', cost=0.5, shape=sh, adims=ad, tdims=td, tsizes=tsz, tnone=True)
    bc = [
        [[['x'], [2]], [['y'], [3]]], [[['x', 'y'], [2, 3]], [['y'], [3]]], [[['x', 'y'], [2, 2]], [['y', 'x'], [2, 2]]],
        [[['x'], [2]], [['y', 'x'], [2, 2]], [['z'], [2]]], [[['x', 'y'], [1, 3]], [['x', 'y'], [2, 3]]], [[[], []], [['x'], [2]]],
        [[['x', 'y'], [2, 1]], [['y', 'z'], [3, 2]], [['z', 'x'], [2, 2]]], [[['y', 'x'], [3, 1]], [['x', 'y'], [2, 1]]],
    ]
    for k, specs in enumerate(bc):
        add('broadcast-arrays-%d' % k, 'broadcast_arrays', cost=1, specs=specs)
    # a labelled length-1 dimension owned by one array, the others lack it: in every argument order
    S, P, Q = [['x', 'y'], [2, 1]], [['x'], [2]], [['z'], [2]]
    for k, specs in enumerate(([S, P, Q], [P, Q, S], [P, S, Q], [S, P], [P, S], [Q, S], [[['y'], [1]], [[], []]], [[[], []], [['y'], [1]], P])):
        add('broadcast-arrays-singleton-%d' % k, 'broadcast_arrays', cost=1, specs=specs)
    for via in ('axes', 'dimarray', 'odict'):
        add('broadcast-other-labels-%s' % via, 'broadcast', cost=1, shape=[2, 2], adims=['x', 'y'], tdims=['z', 'x', 'y'], tsizes=[2, 2, 2], via=via, tdiff=True)
        add('broadcast-other-labels-same-dims-%s' % via, 'broadcast', cost=1, shape=[2], adims=['x'], tdims=['x'], tsizes=[2], via=via, tdiff=True)
    for shape in ([2, 3], [2, 3, 2], [2, 1, 3]):
        add('second-array-%s' % 'x'.join(map(str, shape)), 'second_array', cost=2, shape=shape)
    for names in (['t', 'y', 'x'], ['lon', 'lat', 'time']):
        add('permute-dimnames-%s' % ''.join(n[0] for n in names), 'permute', cost=2, shape=[2, 3, 2], dimnames=names)
    add('broadcast-arrays-mismatch', 'broadcast_mismatch', cost=1)
    return ts
