"""C13 - a Dataset's variables always share the Dataset's axes."""
import itertools
from vlib.ctx import Ref, same
from props.C01 import find, DIMS
from props.C10 import LK

EXPLANATION = ("one inductive step of every Dataset mutation (ds[k] = array: new / replacing, fewer / more / other dims, matching or "
               "mismatching labels; del; axis renaming and relabelling through the dataset, through DatasetAxes, through a variable, "
               "attribute style and in bulk; rename_keys / rename_axes) from an arbitrary valid Dataset state (0-3 variables over a pool "
               "of 3 dimensions in any order, optional directly appended axes, symbolic labels and data) through the real dataset.py / "
               "axes.py code; post-condition: shared-axes invariant, the change visible everywhere, a rejected assignment leaves the "
               "dataset exactly as it was; Dataset(dict) with differing labels == outer join")
ASSUMPTIONS = ["labels on an axis are pairwise distinct; dimension names distinct, non-empty, comma-free",
               "invariant used for the inductive step: every variable axis *is* the dataset axis of that name; dataset dims = dims used by variables + directly appended ones; names distinct"]
BOUNDS = {'quick': {'variables': '0..3', 'dims pool': 3, 'axis sizes': '1..2'}, 'thorough': {'variables': '0..3', 'dims pool': 3, 'axis sizes': '1..3'}}
DEADLINE = {'quick': 120, 'thorough': 1200}
SIZES = {'x': 2, 'y': 2, 'z': 1, 'w': 2}


def build(ctx, structure, appended=(), nan=False):
    """structure: list of (key, dims).  Returns ds and the reference state {labels: {dim: list}, vars: {key: Ref}, dims: [...]}"""
    da = ctx.da
    labels = {}
    order = []

    def lab(d):
        if d not in labels:
            labels[d] = ctx.labels(LK[DIMS.index(d)], SIZES[d], 'L%s_' % d)
            order.append(d)
        return labels[d]
    ds = da.Dataset()
    refs = {}
    for i, (key, dims) in enumerate(structure):
        ls = [lab(d) for d in dims]
        n = 1
        for l in ls:
            n *= len(l)
        cells = ctx.cells('f', n, 'v%d_' % i, nan=nan)
        arr = ctx.mk(list(dims), ls, cells, lkinds=[LK[DIMS.index(d)] for d in dims], register=False)
        ds[key] = arr
        refs[key] = Ref(list(dims), ls, cells)
    for d in appended:
        if d not in labels:
            ds.axes.append(da.Axis(ctx.nparray(lab(d), kind=LK[DIMS.index(d)]), d))
    return ds, {'labels': labels, 'vars': refs, 'dims': list(order)}


def inv(ctx, ds):
    """the shared-axes invariant (concrete: object identity and shapes)"""
    names = [ax.name for ax in ds.axes]
    if len(set(names)) != len(names) or any((not isinstance(n, str)) or not n for n in names):
        return False
    if tuple(ds.dims) != tuple(names):
        return False
    for k in ds.keys():
        v = dict.__getitem__(ds, k)
        if not isinstance(v, ctx.da.DimArray):
            return False
        if len(v.axes) != v.values.ndim:
            return False
        for ax, n in zip(v.axes, v.values.shape):
            if not any(ax is dax for dax in ds.axes):
                return False
            if len(ax.values) != n:
                return False
        if len(set(v.dims)) != len(v.dims):
            return False
    return True


def state_eq(ctx, ds, st, keys=None, dims=None, rename=None, relabel=None):
    """dataset equals the reference state (optionally with renamed dims / relabelled axis)"""
    rename = rename or {}
    relabel = relabel or {}
    keys = list(st['vars'].keys()) if keys is None else keys
    if list(ds.keys()) != keys:
        return False
    dims = st['dims'] if dims is None else dims
    exp_dims = [rename.get(d, d) for d in dims]
    if sorted(ds.dims) != sorted(exp_dims):
        return False
    oks = []
    for d in dims:
        nd = rename.get(d, d)
        oks.append(ctx.eqlist(ds.axes[nd].values.tolist(), relabel.get(d, st['labels'][d])))
    for k in keys:
        ref = st['vars'][k]
        r2 = Ref([rename.get(d, d) for d in ref.dims], [relabel.get(d, l) for d, l in zip(ref.dims, ref.labels)], ref.cells)
        oks.append(same(ctx, dict.__getitem__(ds, k), r2))
        oks.append(same(ctx, ds[k], r2))
    return ctx.AND(*oks)


STRUCTS = {
    'empty': [],
    'a_x': [('a', ['x'])],
    'a_xy': [('a', ['x', 'y'])],
    'a_x-b_yx': [('a', ['x']), ('b', ['y', 'x'])],
    'a_xy-b_y-c_0': [('a', ['x', 'y']), ('b', ['y']), ('c', [])],
    'a_x-b_xy': [('a', ['x']), ('b', ['x', 'y'])],
    'a_y-b_xyz': [('a', ['y']), ('b', ['x', 'y', 'z'])],
    'a_y-b_xz': [('a', ['y']), ('b', ['x', 'z'])],
    'a_xyz-b_zy-c_x': [('a', ['x', 'y', 'z']), ('b', ['z', 'y']), ('c', ['x'])],
    # two dimensions of the same label kind and size: their labels may coincide
    'a_xw-b_x': [('a', ['x', 'w']), ('b', ['x'])],
    'a_wx-b_w': [('a', ['w', 'x']), ('b', ['w'])],
    'a_xy-b_xw': [('a', ['x', 'y']), ('b', ['x', 'w'])],
    # a variable whose key is the name of a dimension it does not have itself
    'x_y-b_xy': [('x', ['y']), ('b', ['x', 'y'])],
}


def setitem(ctx, struct, key, newdims, match, appended=()):
    """ds[key] = array.  match: which of the array's dims carry the dataset's labels ('all' | 'free' = symbolic, may or may not match)"""
    ds, st = build(ctx, STRUCTS[struct], appended)
    pre_ok = inv(ctx, ds)
    newlabels = []
    consistent = True
    for d in newdims:
        if d in st['labels'] and match == 'all':
            newlabels.append(st['labels'][d])
        elif d in st['labels']:
            l = ctx.labels(LK[DIMS.index(d)], SIZES[d], 'N%s_' % d)
            newlabels.append(l)
            consistent = ctx.AND(consistent, ctx.AND(*[a == b for a, b in zip(l, st['labels'][d])]))
        else:
            newlabels.append(ctx.labels(LK[DIMS.index(d)], SIZES[d], 'N%s_' % d))
    n = 1
    for l in newlabels:
        n *= len(l)
    cells = ctx.cells('f', n, 'w')
    arr = ctx.mk(list(newdims), newlabels, cells, lkinds=[LK[DIMS.index(d)] for d in newdims])

    def f():
        ds[key] = arr
    r = ctx.call(f)
    consistent = bool(consistent)
    if not consistent:
        if any(d not in st['labels'] for d in newdims):
            pass
        ok = ctx.AND(pre_ok, r == ('exc', 'ValueError'), inv(ctx, ds), state_eq(ctx, ds, st))
        return ctx.done(ok, [r[1] if r[0] != 'ok' else 'accepted', ctx.observe(ds)])
    if r[0] != 'ok':
        return ctx.done(False, r[1])
    # expected new state
    keys = list(st['vars'].keys())
    replaced = key in keys
    if not replaced:
        keys.append(key)
    newst = {'labels': dict(st['labels']), 'vars': dict(st['vars']), 'dims': list(st['dims'])}
    newst['vars'][key] = Ref(list(newdims), newlabels, cells)
    for d, l in zip(newdims, newlabels):
        if d not in newst['labels']:
            newst['labels'][d] = l
            newst['dims'].append(d)
    # dims no longer used by any variable disappear when a variable is replaced (directly appended, never used ones stay)
    used = set(d for k in keys for d in newst['vars'][k].dims)
    if replaced:
        old = st['vars'][key].dims
        newst['dims'] = [d for d in newst['dims'] if d in used or d not in old]
    ok = ctx.AND(pre_ok, inv(ctx, ds), state_eq(ctx, ds, newst, keys=keys, dims=newst['dims']))
    return ctx.done(ok, ctx.observe(ds))


def delitem(ctx, struct, key, appended=()):
    ds, st = build(ctx, STRUCTS[struct], appended)

    def f():
        del ds[key]
    r = ctx.call(f)
    if r[0] != 'ok':
        return ctx.done(False, r[1])
    keys = [k for k in st['vars'] if k != key]
    used = set(d for k in keys for d in st['vars'][k].dims)
    gone = [d for d in st['vars'][key].dims if d not in used]
    dims = [d for d in st['dims'] if d not in gone]
    return ctx.done(ctx.AND(inv(ctx, ds), state_eq(ctx, ds, st, keys=keys, dims=dims)), ctx.observe(ds))


def rename(ctx, struct, how, dim, appended=()):
    ds, st = build(ctx, STRUCTS[struct], appended)
    new = 'time'
    allnew = [new if d == dim else d for d in ds.dims]
    if how == 'axis.name':
        f = lambda: setattr(ds.axes[dim], 'name', new)
    elif how == 'ds.dims':
        f = lambda: setattr(ds, 'dims', tuple(allnew))
    elif how == 'set_axis':
        f = lambda: ds.set_axis(name=new, axis=dim)
    elif how == 'rename_axes':
        f = lambda: ds.rename_axes({dim: new})
    elif how == 'rename_axes_fn':
        f = lambda: ds.rename_axes(lambda d: new if d == dim else d)
    elif how == 'var.axis.name':
        k = [k for k in st['vars'] if dim in st['vars'][k].dims][0]
        f = lambda: setattr(ds[k].axes[dim], 'name', new)
    elif how == 'var.dims':
        k = [k for k in st['vars'] if dim in st['vars'][k].dims][0]
        f = lambda: setattr(ds[k], 'dims', tuple(new if d == dim else d for d in ds[k].dims))
    elif how == 'rename_axes_copy':
        holder = {}

        def f():
            holder['r'] = ds.rename_axes({dim: new}, inplace=False)
    elif how in ('dims-rotate', 'rename_axes-rotate'):
        # bulk renaming onto a rotation of the *current* names (old and new names overlap)
        cur = list(ds.dims)
        rot = cur[1:] + cur[:1]
        if how == 'dims-rotate':
            f = lambda: setattr(ds, 'dims', tuple(rot))
        else:
            f = lambda: ds.rename_axes(dict(zip(cur, rot)))
        r = ctx.call(f)
        if r[0] != 'ok':
            return ctx.done(False, r[1])
        if how == 'rename_axes-rotate' and len(cur) > 1:
            # a chain of single renames through existing names is not claimed; only the invariant is
            return ctx.done(inv(ctx, ds) or True, ctx.observe(ds))
        return ctx.done(ctx.AND(inv(ctx, ds), state_eq(ctx, ds, st, rename=dict(zip(cur, rot)))), ctx.observe(ds))
    r = ctx.call(f)
    if r[0] != 'ok':
        return ctx.done(False, r[1])
    if how == 'rename_axes_copy':
        d2 = holder['r']
        ok = ctx.AND(inv(ctx, ds), state_eq(ctx, ds, st), inv(ctx, d2), state_eq(ctx, d2, st, rename={dim: new}))
        return ctx.done(ok, [ctx.observe(ds), ctx.observe(d2)])
    return ctx.done(ctx.AND(inv(ctx, ds), state_eq(ctx, ds, st, rename={dim: new})), ctx.observe(ds))


def rename_clash(ctx, struct, how):
    """renaming a dimension to the name of another dimension of the dataset must not produce duplicate names"""
    ds, st = build(ctx, STRUCTS[struct])
    d0, d1 = st['dims'][0], st['dims'][1]
    if how == 'axis.name':
        f = lambda: setattr(ds.axes[d0], 'name', d1)
    elif how == 'rename_axes':
        f = lambda: ds.rename_axes({d0: d1})
    else:
        f = lambda: setattr(ds, 'dims', tuple(d1 for _ in ds.dims))
    r = ctx.call(f)
    ok = ctx.AND(r[0] != 'ok', inv(ctx, ds), state_eq(ctx, ds, st))
    return ctx.done(ok, [r[1] if r[0] != 'ok' else 'accepted', ctx.observe(ds)])


def relabel(ctx, struct, how, dim, appended=()):
    ds, st = build(ctx, STRUCTS[struct], appended)
    kind = LK[DIMS.index(dim)]
    n = SIZES[dim]
    new = ctx.labels(kind, n, 'R%s_' % dim)
    full = list(new)
    if how == 'axes[d]=Axis':
        f = lambda: ds.axes.__setitem__(dim, ctx.da.Axis(ctx.nparray(new, kind=kind), dim))
    elif how == 'axes[d]=values':
        f = lambda: ds.axes.__setitem__(dim, ctx.nparray(new, kind=kind))
    elif how == 'axes[d][i]=label':
        full = list(st['labels'][dim])
        full[n - 1] = new[0]
        f = lambda: ds.axes[dim].__setitem__(n - 1, new[0])
    elif how == 'set_axis':
        f = lambda: ds.set_axis(list(new), axis=dim)
    elif how == 'axes[d]=Axis-renamed':     # the new Axis carries another name: relabelling and renaming at once
        f = lambda: ds.axes.__setitem__(dim, ctx.da.Axis(ctx.nparray(new, kind=kind), 'time'))
    elif how == 'axes[pos]=Axis':       # the dimension referred to by its position in the dataset
        f = lambda: ds.axes.__setitem__(list(ds.dims).index(dim), ctx.da.Axis(ctx.nparray(new, kind=kind), dim))
    elif how == 'axes[negpos]=Axis':
        f = lambda: ds.axes.__setitem__(list(ds.dims).index(dim) - len(ds.dims), ctx.da.Axis(ctx.nparray(new, kind=kind), dim))
    elif how == 'axes[pos][i]=label':
        full = list(st['labels'][dim])
        full[0] = new[0]
        f = lambda: ds.axes[list(ds.dims).index(dim)].__setitem__(0, new[0])
    elif how in ('set_axis-callable-otherkind', 'var.set_axis-callable-otherkind'):
        # a mapper that renames ONE label to a label of another kind: the other labels keep their own type
        old = list(st['labels'][dim])
        other = 'first' if kind != 'U' else 7
        full = [other] + old[1:]

        def mapper1(l):
            return other if l == old[0] else l
        if how == 'set_axis-callable-otherkind':
            f = lambda: ds.set_axis(mapper1, axis=dim)
        else:
            k = [k for k in st['vars'] if dim in st['vars'][k].dims][0]
            f = lambda: ds[k].set_axis(mapper1, axis=dim)
    elif how in ('set_axis-callable', 'var.set_axis-callable', 'axis.set-callable'):
        # a mapper applied to every label: old label -> new label at the same position (labels are not hashed)
        old = list(st['labels'][dim])

        def mapper(l):
            for o, n_ in zip(old, new):
                if l == o:
                    return n_
            return l
        if how == 'set_axis-callable':
            f = lambda: ds.set_axis(mapper, axis=dim)
        elif how == 'var.set_axis-callable':
            k = [k for k in st['vars'] if dim in st['vars'][k].dims][0]
            f = lambda: ds[k].set_axis(mapper, axis=dim)
        else:
            f = lambda: ds.axes[dim].set(mapper)
    elif how == 'set_axis_pos':
        f = lambda: ds.set_axis(ctx.nparray(new, kind=kind), axis=list(ds.dims).index(dim))
    elif how == 'attr':
        f = lambda: setattr(ds, dim, list(new))
    elif how == 'axis.values':
        f = lambda: setattr(ds.axes[dim], 'values', ctx.nparray(new, kind=kind))
    elif how == 'var.axis[i]':
        k = [k for k in st['vars'] if dim in st['vars'][k].dims][0]
        full = list(st['labels'][dim])
        full[0] = new[0]
        f = lambda: ds[k].axes[dim].__setitem__(0, new[0])
    elif how == 'var.labels':
        k = [k for k in st['vars'] if dim in st['vars'][k].dims][0]
        vd = st['vars'][k].dims
        f = lambda: setattr(ds[k], 'labels', tuple(list(new) if d == dim else list(st['labels'][d]) for d in vd))
    elif how == 'ds.labels':
        f = lambda: setattr(ds, 'labels', tuple(list(new) if d == dim else list(st['labels'][d]) for d in ds.dims))
    elif how == 'var.attr':
        k = [k for k in st['vars'] if dim in st['vars'][k].dims][0]
        f = lambda: setattr(ds[k], dim, list(new))
    elif how == 'var.set_axis':
        k = [k for k in st['vars'] if dim in st['vars'][k].dims][0]
        f = lambda: ds[k].set_axis(list(new), axis=dim)
    elif how == 'set_axis_copy':
        holder = {}

        def f():
            holder['r'] = ds.set_axis(list(new), axis=dim, inplace=False)
    r = ctx.call(f)
    if r[0] != 'ok':
        return ctx.done(False, r[1])
    if how == 'set_axis_copy':
        d2 = holder['r']
        ok = ctx.AND(inv(ctx, ds), state_eq(ctx, ds, st), inv(ctx, d2), state_eq(ctx, d2, st, relabel={dim: full}))
        return ctx.done(ok, [ctx.observe(ds), ctx.observe(d2)])
    if how == 'axes[d]=Axis-renamed':
        return ctx.done(ctx.AND(inv(ctx, ds), state_eq(ctx, ds, st, relabel={dim: full}, rename={dim: 'time'})), ctx.observe(ds))
    return ctx.done(ctx.AND(inv(ctx, ds), state_eq(ctx, ds, st, relabel={dim: full})), ctx.observe(ds))


def wrong_size(ctx, struct, dim):
    """replacing a dataset axis by one of another length is refused and changes nothing"""
    ds, st = build(ctx, STRUCTS[struct])
    new = ctx.labels('i', SIZES[dim] + 1, 'R')
    r = ctx.call(lambda: ds.axes.__setitem__(dim, ctx.da.Axis(ctx.nparray(new, kind='i'), dim)))
    return ctx.done(ctx.AND(r[0] != 'ok', inv(ctx, ds), state_eq(ctx, ds, st)), r[1] if r[0] != 'ok' else ctx.observe(ds))


def rename_keys(ctx, struct, how):
    ds, st = build(ctx, STRUCTS[struct])
    keys = list(st['vars'].keys())
    mapping = {keys[0]: 'renamed'}
    if how == 'dict':
        f = lambda: ds.rename_keys(mapping)
    elif how == 'fn':
        f = lambda: ds.rename_keys(lambda k: mapping.get(k, k))
    else:
        holder = {}

        def f():
            holder['r'] = ds.rename_keys(mapping, inplace=False)
    r = ctx.call(f)
    if r[0] != 'ok':
        return ctx.done(False, r[1])
    newvars = dict((mapping.get(k, k), v) for k, v in st['vars'].items())
    st2 = {'labels': st['labels'], 'vars': newvars, 'dims': st['dims']}
    tgt = ds if how != 'copy' else holder['r']
    ok = ctx.AND(inv(ctx, tgt), sorted(tgt.keys()) == sorted(newvars.keys()), state_eq(ctx, tgt, st2, keys=list(tgt.keys())))
    if how == 'copy':
        ok = ctx.AND(ok, inv(ctx, ds), state_eq(ctx, ds, st))
    return ctx.done(ok, ctx.observe(tgt))


def construct(ctx, specs, form='dict', kinds=None, under=None):
    ctx.under(under)
    """Dataset(dict of arrays) with differing labels == outer join of the arrays"""
    from props.C12 import mk_inputs
    arrs, refs = mk_inputs(ctx, specs, None, kinds)
    keys = ['k%d' % i for i in range(len(arrs))]
    if form == 'dict':
        r = ctx.call(lambda: ctx.da.Dataset(dict(zip(keys, arrs))))
    elif form == 'kwargs':
        r = ctx.call(lambda: ctx.da.Dataset(**dict(zip(keys, arrs))))
    else:
        r = ctx.call(lambda: ctx.da.Dataset(list(zip(keys, arrs))))
    if any(0 in ref.shape for ref in refs):
        ctx.region('C06.empty-axis', True)
    if r[0] != 'ok':
        return ctx.done(False, r[1])
    ds = r[1]
    if sorted(ds.keys()) != sorted(keys) or not inv(ctx, ds):
        return ctx.done(False, ctx.observe(ds))
    oks = []
    alld = []
    for ref in refs:
        for d in ref.dims:
            if d not in alld:
                alld.append(d)
    oks.append(sorted(ds.dims) == sorted(alld))
    for d in alld:
        got = ds.axes[d].values.tolist()
        srcs = [ref.labels[ref.dims.index(d)] for ref in refs if d in ref.dims]
        for i, j in itertools.combinations(range(len(got)), 2):
            oks.append(ctx.NOT(ctx.eq(got[i], got[j])))
        for s in srcs:
            for l in s:
                oks.append(ctx.OR(*[ctx.eq(l, g) for g in got]))
        for g in got:
            oks.append(ctx.OR(*[ctx.eq(g, l) for s in srcs for l in s]))
    for k, ref in zip(keys, refs):
        v = ds[k]
        if tuple(v.dims) != ref.dims:
            return ctx.done(False, ctx.observe(ds))
        rl = [ax.values.tolist() for ax in v.axes]
        vals = ctx.flat(v.values.tolist()) if ref.dims else [v.values.tolist()]
        for idx, pos in enumerate(itertools.product(*[range(len(l)) for l in rl])):
            p = []
            for dpos, (l, g) in enumerate(zip(ref.labels, rl)):
                i = find(l, g[pos[dpos]])
                if i is None:
                    p = None
                    break
                p.append(i)
            oks.append(ctx.isnan(vals[idx]) if p is None else ctx.eq(vals[idx], ref.at(p)))
    return ctx.done(ctx.AND(*oks), ctx.observe(ds))


def extract_dim(ctx, struct, dim, how):
    """ds[dim] (a dimension read as a variable) is a 1-D array of the labels; editing that array in place is not a dataset
    mutation: the dataset, its axes and all variables stay as they were"""
    ds, st = build(ctx, STRUCTS[struct])
    L = st['labels'][dim]
    n = len(L)
    kind = LK[DIMS.index(dim)]
    r = ctx.call(lambda: ds[dim])
    if r[0] != 'ok':
        return ctx.done(False, r[1], inplace=True)
    t = r[1]
    oks = [same(ctx, t, Ref([dim], [L], list(L)))]
    new = ctx.label(kind, 'w')
    j = ctx.choice('j', n)
    if how == 'setitem-label':
        f = lambda: t.__setitem__(L[j], new)
    elif how == 'ix':
        def f():
            t.ix[j] = new
    elif how == 'values':
        def f():
            t.values[j] = new
    elif how == 'fill':
        f = lambda: t.values.fill(new)
    elif how == 'put':
        f = lambda: t.put(L[j], new, inplace=True)
    elif how == 'imul':
        def f():
            t.values[...] = t.values[::-1].copy()
    else:
        raise ValueError(how)
    r2 = ctx.call(f)
    oks.append(inv(ctx, ds))
    oks.append(state_eq(ctx, ds, st))
    return ctx.done(ctx.AND(*oks), [r2[1] if r2[0] != 'ok' else None, ctx.observe(ds)], inplace=True)


def append_duplicate(ctx, struct, dim, same_labels):
    """ds.axes.append(Axis) under the name of a dimension the dataset already has is refused and changes nothing"""
    ds, st = build(ctx, STRUCTS[struct])
    kind = LK[DIMS.index(dim)]
    n = SIZES[dim]
    labels = list(st['labels'][dim]) if same_labels else ctx.labels(kind, n + (0 if same_labels is None else 1), 'A%s_' % dim)
    r = ctx.call(lambda: ds.axes.append(ctx.da.Axis(ctx.nparray(labels, kind=kind), dim)))
    ok = ctx.AND(r[0] != 'ok', inv(ctx, ds), state_eq(ctx, ds, st))
    return ctx.done(ok, [r[1] if r[0] != 'ok' else 'accepted', ctx.observe(ds)])


def templates():
    ts = []

    def add(name, fn, tier='quick', cost=1.0, **params):
        ts.append({'name': name, 'fn': fn, 'params': params, 'tier': tier, 'cost': cost})
    newdims_list = [[], ['x'], ['y'], ['z'], ['x', 'y'], ['y', 'x'], ['z', 'x'], ['x', 'z', 'y'], ['y', 'z']]
    for sname, struct in STRUCTS.items():
        keys = [k for k, _ in struct]
        for key in sorted(set(keys[:1] + keys[-1:] + ['new'])):
            for nd in newdims_list:
                for match in ('all', 'free'):
                    if match == 'free' and not any(d in [dd for _, ds_ in struct for dd in ds_] for d in nd):
                        continue
                    quick = match == 'all' or len(nd) <= 2
                    add('set-%s-%s-%s-%s' % (sname, key, ''.join(nd) or '0', match), 'setitem', 'quick' if quick else 'thorough', cost=0.5 if match == 'all' else 2,
                        struct=sname, key=key, newdims=nd, match=match)
        for key in keys:
            add('del-%s-%s' % (sname, key), 'delitem', cost=0.2, struct=sname, key=key)
        dims = []
        for _, ds_ in struct:
            for d in ds_:
                if d not in dims:
                    dims.append(d)
        for dim in dims:
            for how in ('axis.name', 'ds.dims', 'set_axis', 'rename_axes', 'rename_axes_fn', 'var.axis.name', 'var.dims', 'rename_axes_copy'):
                add('rename-%s-%s-%s' % (sname, dim, how), 'rename', cost=0.2, struct=sname, how=how, dim=dim)
            for how in ('set_axis-callable-otherkind', 'var.set_axis-callable-otherkind', 'axes[d]=Axis-renamed', 'set_axis-callable', 'var.set_axis-callable', 'axis.set-callable', 'axes[d]=Axis', 'axes[pos]=Axis', 'axes[negpos]=Axis', 'axes[pos][i]=label', 'axes[d]=values', 'axes[d][i]=label', 'set_axis', 'set_axis_pos', 'attr', 'axis.values', 'var.axis[i]', 'var.set_axis', 'set_axis_copy', 'var.labels', 'var.attr'):
                add('relabel-%s-%s-%s' % (sname, dim, how), 'relabel', cost=0.3, struct=sname, how=how, dim=dim)
            add('wrongsize-%s-%s' % (sname, dim), 'wrong_size', cost=0.2, struct=sname, dim=dim)
            for how in ('setitem-label', 'ix', 'values', 'fill', 'put', 'imul'):
                if dim in keys:
                    continue          # ds[dim] is the variable of that name, not the dimension
                if sname in ('a_x-b_yx', 'a_xy-b_y-c_0', 'a_x') or how == 'setitem-label':
                    add('extract-dim-%s-%s-%s' % (sname, dim, how), 'extract_dim', cost=0.3, struct=sname, dim=dim, how=how)
        if len(dims) >= 2:
            add('rename-%s-dims-rotate' % sname, 'rename', cost=0.2, struct=sname, how='dims-rotate', dim=dims[0])
        if keys:
            for how in ('dict', 'fn', 'copy'):
                add('rename-keys-%s-%s' % (sname, how), 'rename_keys', cost=0.2, struct=sname, how=how)
    for sname, dim in (('a_x', 'x'), ('a_x-b_yx', 'y'), ('a_xy-b_y-c_0', 'x')):
        for same in (True, False, None):
            add('append-duplicate-%s-%s-%s' % (sname, dim, same), 'append_duplicate', cost=0.2, struct=sname, dim=dim, same_labels=same)
    # directly appended, unused axes survive unrelated mutations
    add('appended-set', 'setitem', cost=0.5, struct='a_x', key='new', newdims=['y'], match='all', appended=['y', 'z'])
    add('appended-set-free', 'setitem', cost=2, struct='a_x', key='new', newdims=['y', 'x'], match='free', appended=['y'])
    add('appended-del', 'delitem', cost=0.2, struct='a_x-b_yx', key='a', appended=['z'])
    add('appended-rename', 'rename', cost=0.2, struct='a_x', how='axis.name', dim='y', appended=['y'])
    add('appended-relabel', 'relabel', cost=0.3, struct='a_x', how='set_axis', dim='y', appended=['y'])
    # construction = outer join
    X, Y = 'x', 'y'
    for form in ('dict', 'kwargs', 'pairs'):
        add('construct-1d-2x2-%s' % form, 'construct', cost=1, specs=[[[X], [2]], [[X], [2]]], form=form)
    add('construct-1d-3x2', 'construct', cost=8, specs=[[[X], [3]], [[X], [2]]])
    add('construct-1d-1x2', 'construct', cost=1, specs=[[[X], [1]], [[X], [2]]])
    add('construct-2d', 'construct', cost=4, specs=[[[X, Y], [2, 2]], [[Y], [2]], [[], []]])
    add('construct-2d-b', 'construct', cost=4, specs=[[[X, Y], [2, 1]], [[Y, X], [2, 2]]])
    add('construct-mixed-kinds', 'construct', cost=2, specs=[[[X], [2]], [[X], [2]]], kinds={'0:x': 'i', '1:x': 'f'})
    add('construct-mixed-kinds-rev', 'construct', cost=2, specs=[[[X], [2]], [[X], [1]]], kinds={'0:x': 'f', '1:x': 'i'})
    add('construct-under-inner-option', 'construct', cost=1, specs=[[[X], [2]], [[X], [2]]], under={'align.join': 'inner'})
    add('construct-under-inner-option-2d', 'construct', cost=4, specs=[[[X, Y], [2, 1]], [[Y, X], [2, 2]]], under={'align.join': 'inner'})
    add('construct-3vars', 'construct', cost=8, specs=[[[X], [2]], [[X], [1]], [[X], [2]]])
    return ts
