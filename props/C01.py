"""C01 - label indexing returns exactly the data stored at those labels."""
import itertools
from vlib.ctx import Ref, same

EXPLANATION = ("a[idx] / take / loc / sel / nloc / tol= / .ix / .iloc through the real _getitem, _get_indices, Axis.loc, "
               "locate_one, locate_many, orthogonal_indexer with symbolic labels (any order), symbolic queried labels "
               "(present or absent), symbolic mask bits, tolerance and data; oracle: per-dimension lookup by label "
               "equality + orthogonal selection; position mode vs python list indexing")
ASSUMPTIONS = ["labels on an axis are pairwise distinct", "tolerance >= 0"]
BOUNDS = {'quick': {'nd': '0..3', 'n': '1..3 (rich dimension up to 4)', 'list length': '0..3'},
          'thorough': {'nd': '0..4', 'n': '1..4 (rich dimension up to 5)', 'list length': '0..3'}}
DEADLINE = {'quick': 120, 'thorough': 1200}
DIMS = ['x', 'y', 'z', 'w']


def find(labels, q):
    for i, l in enumerate(labels):
        if l == q:
            return i
    return None


def build(ctx, shape, lkinds, dkind='f', prime=False, order=None, layout=None):
    """prime: put the axes' lazily cached state (Axis._monotonic) into its other legitimate value by
    calling the public query is_monotonic() first - results must not depend on it"""
    dims = DIMS[:len(shape)]
    labels = [ctx.labels(k, n, 'l%s_' % d, order=(order if n >= 2 else None)) for d, n, k in zip(dims, shape, lkinds)]
    ncell = 1
    for n in shape:
        ncell *= n
    cells = ctx.cells(dkind, ncell, 'v')
    a = ctx.mk(dims, labels, cells, lkinds=lkinds, kind=dkind, layout=layout)
    if prime:
        for ax in a.axes:
            ax.is_monotonic()
    return a, Ref(dims, labels, cells), dims, labels


def make_index(ctx, d, kind, labels, lkind, qkind=None):
    """-> (index object, expected selection [int | list | None for IndexError])"""
    qk = qkind or lkind
    n = len(labels)
    if kind == 'full':
        return slice(None), list(range(n))
    if kind == 'scalar':
        q = ctx.label(qk, 'q%s' % d)
        return q, find(labels, q)
    if kind == 'present':          # a label known to be on the axis (cheap: one fork per choice)
        i = ctx.choice('c%s' % d, n)
        return labels[i], i
    if kind.startswith('list') or kind.startswith('array') or kind.startswith('tuple'):
        k = int(kind[-1])
        qs = [ctx.label(qk, 'q%s_%d' % (d, j)) for j in range(k)]
        sel = [find(labels, q) for q in qs]
        if any(s is None for s in sel):
            sel = None
        if kind.startswith('array'):
            idx = ctx.nparray(qs, kind=qk)
        else:
            idx = list(qs)
        return idx, sel
    if kind == 'mask':
        bits = [bool(ctx.bool('m%s_%d' % (d, j))) for j in range(n)]
        return ctx.nparray(bits, kind='b'), [j for j, b in enumerate(bits) if b]
    if kind in ('masklist', 'masktuple'):      # the mask written as a plain Python list / tuple of bools
        bits = [bool(ctx.bool('m%s_%d' % (d, j))) for j in range(n)]
        return (list(bits) if kind == 'masklist' else tuple(bits)), [j for j, b in enumerate(bits) if b]
    if kind == 'maskaxis':         # mask computed from the axis itself: a.x > t
        t = ctx.label(lkind, 't%s' % d)
        return ('gt', t), [j for j, l in enumerate(labels) if l > t]
    raise ValueError(kind)


def index_nd(ctx, shape, lkinds, kinds, via='getitem', trim=False, qkind=None, dkind='f', keepdims=False, prime=False):
    a, ref, dims, labels = build(ctx, shape, lkinds, dkind, prime)
    idx = []
    sel = []
    for d, kind, l, lk in zip(dims, kinds, labels, lkinds):
        i, s = make_index(ctx, d, kind, l, lk, qkind)
        if isinstance(i, tuple) and i and i[0] == 'gt':
            i = getattr(a, d) > i[1]
        idx.append(i)
        sel.append(s)
    tup = tuple(idx)
    if trim:
        while tup and isinstance(tup[-1], slice):
            tup = tup[:-1]
    nonfull = [(d, i) for d, i, k in zip(dims, idx, kinds) if k != 'full']
    if via == 'getitem':
        f = lambda: a[tup if len(tup) != 1 else tup[0]]
    elif via == 'take':
        f = lambda: a.take(tup, keepdims=keepdims)
    elif via == 'takedict':
        f = lambda: a.take(dict(nonfull), keepdims=keepdims)
    elif via == 'takedictpos':
        f = lambda: a.take(dict((dims.index(d), i) for d, i in nonfull))
    elif via == 'loc':
        f = lambda: a.loc[tup]
    elif via == 'locdict':
        f = lambda: a.loc[dict(nonfull)]
    elif via == 'sel':
        f = lambda: a.sel(**dict(nonfull))
    elif via == 'takeaxisname':
        assert len(nonfull) == 1
        f = lambda: a.take(nonfull[0][1], axis=nonfull[0][0], keepdims=keepdims)
    elif via == 'takeaxispos':
        assert len(nonfull) == 1
        f = lambda: a.take(nonfull[0][1], axis=dims.index(nonfull[0][0]), keepdims=keepdims)
    elif via == 'takeaxisneg':
        assert len(nonfull) == 1
        f = lambda: a.take(nonfull[0][1], axis=dims.index(nonfull[0][0]) - len(dims), keepdims=keepdims)
    elif via == 'take-label-explicit':
        f = lambda: a.take(tup, indexing='label')
    elif via == 'getitem-axes':
        # an Axes object as index: every dimension looked up by the labels of the given axes
        if any(k not in ('list2', 'list1', 'array2', 'full') for k in kinds):
            raise ValueError('getitem-axes needs list kinds')
        ax = ctx.da.Axes([ctx.da.Axis(ctx.nparray(i if not isinstance(i, slice) else l, kind=lk), d) for d, i, l, lk in zip(dims, idx, labels, lkinds)])
        f = lambda: a[ax]
    elif via == 'ix-under-position':
        # with indexing.by = 'position' .ix toggles to labels and .loc keeps meaning labels
        ctx.da.set_option('indexing.by', 'position')
        try:
            a2 = ctx.mk(dims, labels, ref.cells, lkinds=lkinds, kind=dkind, register=False)
        finally:
            ctx.da.set_option('indexing.by', 'label')
        f = lambda: a2.ix[tup]
    elif via in ('loc-under-position', 'sel-under-position', 'take-label-under-position', 'sel-option-still-on'):
        ctx.da.set_option('indexing.by', 'position')
        try:
            a2 = ctx.mk(dims, labels, ref.cells, lkinds=lkinds, kind=dkind, register=False)
        finally:
            if via != 'sel-option-still-on':
                ctx.da.set_option('indexing.by', 'label')
        if via == 'loc-under-position':
            f = lambda: a2.loc[tup]
        elif via == 'take-label-under-position':
            f = lambda: a2.take(tup, indexing='label')
        else:
            f = lambda: a2.sel(**dict(nonfull))
    else:
        raise ValueError(via)
    r = ctx.call(f)
    if any(s is None for s in sel):
        return ctx.done(r == ('exc', 'IndexError'), r[1] if r[0] != 'ok' else ctx.observe(r[1]))
    if r[0] != 'ok':
        return ctx.done(False, r[1])
    if keepdims:
        sel = [[s] if isinstance(s, int) else s for s in sel]
    return ctx.done(same(ctx, r[1], ref.select(sel), check_kind=dkind if any(not isinstance(s, int) for s in sel) else None), ctx.observe(r[1]))


def tol_lookup(ctx, n, lkind, qkind, form, via, m=0, prime=False):
    """nearest-neighbour lookup with a tolerance (1-D, or the first dimension of an n x m array)"""
    shape = (n,) if not m else (n, m)
    a, ref, dims, labels = build(ctx, shape, [lkind] + (['i'] if m else []), prime=prime)
    ls = labels[0]
    nq = 1 if form == 'scalar' else 2
    qs = [ctx.label(qkind, 'q%d' % j) for j in range(nq)]
    tol = ctx.real('tol')
    ctx.assume(tol >= 0)
    if via == 'nloc':
        tol = None
    idx = qs[0] if form == 'scalar' else list(qs)
    if via == 'take':
        r = ctx.call(lambda: a.take(idx, axis='x', tol=tol))
    elif via == 'takepos':
        r = ctx.call(lambda: a.take(idx, axis=0, tol=tol))
    elif via == 'takedict':
        r = ctx.call(lambda: a.take({'x': idx}, tol=tol))
    else:
        r = ctx.call(lambda: a.nloc[idx])

    def dist(l, q):
        d = l - q
        return ctx.symx.ite(d >= 0, d, -d) if ctx.sym and hasattr(d, 'z') else abs(d)
    cands = []   # per query: list of acceptable positions (ties) or None
    for q in qs:
        ds = [dist(l, q) for l in ls]
        mi = 0
        for i in range(1, n):
            if ds[i] < ds[mi]:
                mi = i
        if tol is not None and not (lkind == 'i' and qkind == 'i'):
            # a nearest label lying EXACTLY at the tolerance is decided by floating-point rounding of the distance (outside
            # the claim: reals are exact here), unless the distance is 0.  With integer labels and integer queries the distance is
            # exact and the boundary stays in the claim (it is inclusive).
            ctx.assume(ctx.OR(ctx.NOT(ds[mi] == tol), ds[mi] == 0))
        if tol is not None and ds[mi] > tol:
            cands.append(None)
        else:
            cands.append([i for i in range(n) if i == mi or ds[i] == ds[mi]])
    if any(c is None for c in cands):
        return ctx.done(r == ('exc', 'IndexError'), r[1] if r[0] != 'ok' else ctx.observe(r[1]))
    if r[0] != 'ok':
        return ctx.done(False, r[1])
    rest = [list(range(m))] if m else []
    alts = []
    for combo in itertools.product(*cands):
        s0 = combo[0] if form == 'scalar' else list(combo)
        alts.append(same(ctx, r[1], ref.select([s0] + rest)))
    return ctx.done(ctx.OR(*alts), ctx.observe(r[1]))


def tol_nd(ctx, via, order):
    """tolerance lookup on a numeric dimension combined with an exact lookup on a str dimension (either order)"""
    lk = ['U', 'f'] if order == 'str-first' else ['f', 'U']
    a, ref, dims, labels = build(ctx, [2, 3], lk) if order == 'str-first' else build(ctx, [3, 2], lk)
    si = 0 if order == 'str-first' else 1
    ni = 1 - si
    sc = ctx.choice('sc', 2)
    q = ctx.real('q')
    tol = ctx.real('tol')
    ctx.assume(tol > 0)
    idx = [None, None]
    idx[si] = labels[si][sc] if via != 'list' else [labels[si][sc]]
    idx[ni] = q
    if via in ('take', 'list'):
        r = ctx.call(lambda: a.take(tuple(idx), tol=tol))
    elif via == 'dict':
        r = ctx.call(lambda: a.take({dims[0]: idx[0], dims[1]: idx[1]}, tol=tol))
    else:
        tol = None
        r = ctx.call(lambda: a.nloc[tuple(idx)])
    ls = labels[ni]
    ds = [ctx.symx.ite(l - q >= 0, l - q, q - l) if ctx.sym else abs(l - q) for l in ls]
    mi = 0
    for i in range(1, len(ls)):
        if ds[i] < ds[mi]:
            mi = i
    if tol is not None and ds[mi] > tol:
        return ctx.done(r == ('exc', 'IndexError'), r[1] if r[0] != 'ok' else ctx.observe(r[1]))
    if r[0] != 'ok':
        return ctx.done(False, r[1])
    cands = [i for i in range(len(ls)) if i == mi or ds[i] == ds[mi]]
    alts = []
    for c in cands:
        sel = [None, None]
        sel[si] = sc if via != 'list' else [sc]
        sel[ni] = c
        alts.append(same(ctx, r[1], ref.select(sel)))
    return ctx.done(ctx.OR(*alts), ctx.observe(r[1]))


def _pos_forms(n):
    forms = [('int', i) for i in range(-n - 1, n + 1)]
    forms += [('list', []), ('list', [0] if n else []), ('list', [n - 1, 0, n - 1] if n else []), ('list', [-1, 0] if n else []), ('list', [n] if True else [])]
    forms += [('mask', [j % 2 == 0 for j in range(n)]), ('mask', [False] * n), ('mask', [True] * n)]
    forms += [('full', None)]
    return forms


def position_nd(ctx, shape, lkinds, via, rich):
    """positional access: exactly what the same NumPy index selects on .values, dimension by dimension"""
    by_position = via.endswith('-under-position')
    if by_position:
        ctx.da.set_option('indexing.by', 'position')
    try:
        a, ref, dims, labels = build(ctx, shape, lkinds)
    finally:
        ctx.da.set_option('indexing.by', 'label')
    oks = []
    obs = []
    nd = len(shape)
    per_dim = []
    for d in range(nd):
        per_dim.append(_pos_forms(shape[d]) if d == rich else [('full', None), ('int', 0), ('int', -1), ('list', [shape[d] - 1, 0])])
    for combo in itertools.product(*per_dim):
        idx = []
        sel = []
        for (kind, v), n in zip(combo, shape):
            if kind == 'int':
                idx.append(v)
                sel.append(v + n if -n <= v < 0 else (v if 0 <= v < n else None))
            elif kind == 'list':
                idx.append(list(v))
                sel.append(None if any(not -n <= i < n for i in v) else [i % n if n else i for i in v])
            elif kind == 'mask':
                idx.append(ctx.nparray(v, kind='b'))
                sel.append([j for j, b in enumerate(v) if b])
            else:
                idx.append(slice(None))
                sel.append(list(range(n)))
        tup = tuple(idx)
        if via == 'ix':
            r = ctx.call(lambda: a.ix[tup])
        elif via == 'iloc' or via == 'iloc-under-position':
            r = ctx.call(lambda: a.iloc[tup])
        elif via == 'isel':
            r = ctx.call(lambda: a.isel(**dict((dims[i], tup[i]) for i in range(nd))))
        elif via == 'take':
            r = ctx.call(lambda: a.take(tup, indexing='position'))
        elif via == 'getitem-under-position':
            r = ctx.call(lambda: a[tup])
        else:
            raise ValueError(via)
        if any(s is None for s in sel):
            ok = r == ('exc', 'IndexError')
        elif r[0] != 'ok':
            ok = False
        else:
            ok = same(ctx, r[1], ref.select(sel))
        if ok is False:
            ctx.note('failing_index', repr(combo))
            if any(k == 'list' and v == [] for k, v in combo):
                pass
            obs.append([repr(combo), r[1] if r[0] != 'ok' else ctx.observe(r[1])])
        oks.append(ok)
    return ctx.done(ctx.AND(*oks), obs)


def ellipsis_nd(ctx, shape, lkinds, via, kinds):
    """an Ellipsis in the key stands for as many full slices as are needed to address every dimension (NumPy's rule): the
    indices written before it address the leading dimensions, those after it the trailing ones.  kinds: one index kind per
    key item, '...' for the Ellipsis."""
    a, ref, dims, labels = build(ctx, shape, lkinds)
    nd = len(shape)
    e = kinds.index('...')
    before, after = kinds[:e], kinds[e + 1:]
    full = list(before) + ['full'] * (nd - len(before) - len(after)) + list(after)
    key = []
    sel = []
    position = via in ('ix', 'take-position')
    for d, kind, l, lk, n in zip(dims, full, labels, lkinds, shape):
        if position:
            if kind == 'full':
                i, s = slice(None), list(range(n))
            elif kind == 'scalar':
                c = ctx.choice('c%s' % d, n)
                i, s = c, c
            elif kind == 'slice':           # 1: (exclusive stop semantics of NumPy)
                i, s = slice(1, None), list(range(1, n))
            else:
                i, s = [n - 1, 0], [n - 1, 0]
        else:
            if kind == 'slice':             # label slice between two existing labels of an increasing axis is not wanted here:
                c = ctx.choice('c%s' % d, n)     # use "from this label to itself" which every axis kind supports
                i, s = slice(l[c], l[c]), [c]
            else:
                i, s = make_index(ctx, d, kind, l, lk)
        key.append(i)
        sel.append(s)
    tup = tuple(key[:len(before)]) + (Ellipsis,) + tuple(key[nd - len(after):] if after else ())
    if via == 'getitem':
        r = ctx.call(lambda: a[tup])
    elif via == 'ix':
        r = ctx.call(lambda: a.ix[tup])
    elif via == 'loc':
        r = ctx.call(lambda: a.loc[tup])
    elif via == 'take':
        r = ctx.call(lambda: a.take(tup))
    elif via == 'take-position':
        r = ctx.call(lambda: a.take(tup, indexing='position'))
    else:
        raise ValueError(via)
    if any(s is None for s in sel):
        return ctx.done(r == ('exc', 'IndexError'), r[1] if r[0] != 'ok' else ctx.observe(r[1]))
    if r[0] != 'ok':
        return ctx.done(False, r[1])
    return ctx.done(same(ctx, r[1], ref.select(sel)), ctx.observe(r[1]))


def shared_index_object(ctx, via, form):
    """one index object used for two dimensions of different length (and again afterwards): every use selects what NumPy selects,
    and the object is left as it was"""
    a, ref, dims, labels = build(ctx, [3, 2], ['U', 'i'])
    raw = [-1, 0]
    idx = ctx.nparray(raw, kind='i') if form == 'ndarray' else list(raw)
    if via == 'iloc':
        r = ctx.call(lambda: a.iloc[idx, idx])
    elif via == 'ix':
        r = ctx.call(lambda: a.ix[idx, idx])
    elif via == 'take':
        r = ctx.call(lambda: a.take((idx, idx), indexing='position'))
    else:
        r = ctx.call(lambda: a.isel(x=idx, y=idx))
    if r[0] != 'ok':
        return ctx.done(False, r[1])
    oks = [same(ctx, r[1], ref.select([[2, 0], [1, 0]]))]
    oks.append((idx.tolist() if form == 'ndarray' else idx) == raw)
    r2 = ctx.call(lambda: a.ix[idx])
    oks.append(r2[0] == 'ok' and same(ctx, r2[1], ref.select([[2, 0], [0, 1]])))
    return ctx.done(ctx.AND(*oks), ctx.observe(r[1]))


def zero_d(ctx):
    v = ctx.real('v')
    a = ctx.da.DimArray(ctx.np.array(v))
    r = ctx.call(lambda: a[()])
    if r[0] != 'ok':
        return ctx.done(False, r[1])
    return ctx.done(ctx.eq(ctx.scalar(r[1]) if not isinstance(r[1], ctx.da.DimArray) else r[1].values.tolist(), v), ctx.observe(r[1]))


def templates():
    ts = []

    def add(name, fn, tier='quick', cost=1.0, **params):
        ts.append({'name': name, 'fn': fn, 'params': params, 'tier': tier, 'cost': cost})
    add('0d', 'zero_d', cost=0.1)
    # 1-D: every index kind, every label kind, several sizes
    for lk in 'ifU':
        for n in (1, 2, 3, 4):
            for kind in ('scalar', 'list0', 'list1', 'list2', 'list3', 'array2', 'mask', 'maskaxis'):
                cost = {'scalar': 0.1, 'mask': 0.3, 'maskaxis': 0.3, 'list0': 0.1, 'list1': 0.3, 'list2': 2, 'array2': 2, 'list3': 12}[kind] * (1 if n < 4 else 8)
                tier = 'quick' if cost <= 4 else 'thorough'
                if kind == 'list3' and n == 3 and lk == 'i':
                    tier = 'quick'
                add('1d-%s-n%d-%s' % (lk, n, kind), 'index_nd', tier, cost, shape=[n], lkinds=[lk], kinds=[kind])
    # masks written as plain Python lists of bools, on axes that carry the labels 0 and 1 among others (symbolic)
    for n in (2, 3):
        add('1d-masklist-n%d' % n, 'index_nd', cost=1, shape=[n], lkinds=['i'], kinds=['masklist'])
    add('2d-masklist', 'index_nd', cost=2, shape=[2, 3], lkinds=['i', 'i'], kinds=['scalar', 'masklist'])
    add('2d-masklist-take', 'index_nd', cost=2, shape=[3, 2], lkinds=['i', 'U'], kinds=['masklist', 'full'], via='takeaxisname')
    # same lookups on arrays whose axes have answered is_monotonic() before (cached state must not matter)
    for lk in 'ifU':
        for kind in ('scalar', 'list1', 'list2', 'mask'):
            add('1d-primed-%s-%s' % (lk, kind), 'index_nd', cost=1.5, shape=[3], lkinds=[lk], kinds=[kind], prime=True)
    add('2d-primed', 'index_nd', cost=4, shape=[2, 3], lkinds=['U', 'i'], kinds=['scalar', 'list2'], prime=True)
    add('tol-primed', 'tol_lookup', cost=1, n=3, lkind='f', qkind='f', form='scalar', via='take', prime=True)
    # int axis queried with reals (a[10.0] finds 10), real axis queried with ints
    for lk, qk in (('i', 'f'), ('f', 'i')):
        for kind in ('scalar', 'list2'):
            add('1d-%s-query-%s-%s' % (lk, qk, kind), 'index_nd', cost=1, shape=[3], lkinds=[lk], kinds=[kind], qkind=qk)
    # int / bool data
    for dk in 'ib':
        add('1d-data-%s' % dk, 'index_nd', cost=1, shape=[3], lkinds=['i'], kinds=['list2'], dkind=dk)
    # spellings, 2-D, single indexed dimension
    for via in ('take', 'takedict', 'takedictpos', 'loc', 'locdict', 'sel', 'takeaxisname', 'takeaxispos', 'ix-under-position', 'loc-under-position',
                'sel-under-position', 'take-label-under-position', 'sel-option-still-on'):
        for dim in (0, 1):
            for kind in ('scalar', 'list2', 'mask'):
                kinds = ['full', 'full']
                kinds[dim] = kind
                lks = ['i', 'U'] if dim == 0 else ['U', 'f']
                if via == 'sel' and kind == 'mask':
                    pass
                add('2d-%s-dim%d-%s' % (via, dim, kind), 'index_nd', cost=1.5, shape=[3, 2] if dim == 0 else [2, 3], lkinds=lks, kinds=kinds, via=via)
    for dim in (0, 1):
        for kind in ('scalar', 'list2'):
            kinds = ['full', 'full']
            kinds[dim] = kind
            add('2d-takeaxisneg-dim%d-%s' % (dim, kind), 'index_nd', cost=1.5, shape=[3, 2] if dim == 0 else [2, 3], lkinds=['i', 'U'] if dim == 0 else ['U', 'f'], kinds=kinds, via='takeaxisneg')
    add('2d-take-label-explicit', 'index_nd', cost=1.5, shape=[2, 3], lkinds=['U', 'i'], kinds=['scalar', 'list2'], via='take-label-explicit')
    add('2d-getitem-axes', 'index_nd', cost=3, shape=[2, 2], lkinds=['i', 'U'], kinds=['list1', 'list2'], via='getitem-axes')
    for via in ('take', 'takeaxisname', 'takeaxispos', 'takedict'):
        add('2d-keepdims-%s' % via, 'index_nd', cost=1, shape=[2, 3], lkinds=['i', 'f'], kinds=['full', 'scalar'], via=via, keepdims=True)
    # N-d orthogonal combinations: one rich dimension (list / array), the others plain
    plain = ['scalar', 'mask', 'full', 'present']
    for nd in (2, 3):
        for rich in range(nd):
            for richkind in ('list2', 'array2', 'list1', 'list0'):
                for others in itertools.product(plain, repeat=nd - 1):
                    kinds = list(others)
                    kinds.insert(rich, richkind)
                    shape = [2] * nd
                    shape[rich] = 3
                    lks = [('i', 'f', 'U')[(j + rich) % 3] for j in range(nd)]
                    quick = (nd == 2) or (richkind == 'list2' and others in (('scalar', 'mask'), ('mask', 'full'), ('present', 'scalar'), ('full', 'mask')))
                    add('%dd-rich%d-%s-%s' % (nd, rich, richkind, '-'.join(others)), 'index_nd', 'quick' if quick else 'thorough',
                        cost=4.0 if nd == 2 else 12.0, shape=shape, lkinds=lks, kinds=kinds, trim=(rich % 2 == 0))
    # two list dimensions (orthogonal, not broadcast), small
    for k0, k1 in (('list2', 'list2'), ('list2', 'mask'), ('array2', 'list1'), ('mask', 'mask')):
        add('2d-ortho-%s-%s' % (k0, k1), 'index_nd', cost=6, shape=[2, 2], lkinds=['i', 'U'], kinds=[k0, k1])
    add('3d-ortho-list2-full-list2', 'index_nd', 'thorough', cost=20, shape=[2, 2, 2], lkinds=['i', 'U', 'f'], kinds=['list2', 'full', 'list2'])
    add('3d-ortho-list1-scalar-list2', 'index_nd', cost=8, shape=[2, 2, 2], lkinds=['i', 'U', 'f'], kinds=['list1', 'scalar', 'list2'])
    add('4d-mixed', 'index_nd', 'thorough', cost=30, shape=[2, 2, 2, 2], lkinds=['i', 'U', 'f', 'i'], kinds=['scalar', 'list2', 'mask', 'full'])
    add('4d-mixed-small', 'index_nd', cost=6, shape=[2, 1, 2, 2], lkinds=['i', 'U', 'f', 'i'], kinds=['present', 'list1', 'mask', 'full'])
    # tolerance
    for lk, qk in (('i', 'i'), ('f', 'f'), ('i', 'f')):
        for n in (1, 2, 3):
            for form in ('scalar', 'list'):
                for via in ('take', 'nloc'):
                    cost = 0.5 if form == 'scalar' else 4
                    add('tol-%s%s-n%d-%s-%s' % (lk, qk, n, form, via), 'tol_lookup', 'quick' if (n < 3 or form == 'scalar' or lk == 'i' and qk == 'i') else 'thorough', cost,
                        n=n, lkind=lk, qkind=qk, form=form, via=via)
    for via in ('takepos', 'takedict', 'nloc'):
        add('tol-2d-%s' % via, 'tol_lookup', cost=2, n=3, lkind='f', qkind='f', form='scalar', via=via, m=2)
    for via in ('take', 'dict', 'nloc', 'list'):
        for order in ('str-first', 'num-first'):
            add('tol-nd-%s-%s' % (via, order), 'tol_nd', cost=1.5, via=via, order=order)
    # positional access
    for via in ('ix', 'iloc', 'isel', 'take', 'getitem-under-position', 'iloc-under-position'):
        for shape, lks in (([3], ['i']), ([2, 3], ['U', 'i']), ([0], ['i'])):
            for rich in range(len(shape)):
                add('pos-%s-%s-rich%d' % (via, 'x'.join(map(str, shape)), rich), 'position_nd', cost=1.5, shape=shape, lkinds=lks, via=via, rich=rich)
    for via in ('iloc', 'ix', 'take', 'isel'):
        for form in ('ndarray', 'list'):
            add('shared-index-%s-%s' % (via, form), 'shared_index_object', cost=0.5, via=via, form=form)
    add('pos-ix-3d', 'position_nd', cost=4, shape=[2, 2, 3], lkinds=['i', 'U', 'f'], via='ix', rich=2)
    # Ellipsis in the key (NumPy's rule: it absorbs the dimensions not addressed explicitly)
    for via in ('getitem', 'ix', 'loc', 'take', 'take-position'):
        for shape, lks in (([2, 3], ['U', 'i']), ([2, 2, 3], ['i', 'U', 'f'])):
            nd = len(shape)
            forms = [['...', 'scalar'], ['...', 'slice'], ['scalar', '...'], ['...', 'list2' if via not in ('ix', 'take-position') else 'list'], ['...']]
            if nd == 3:
                forms += [['scalar', '...', 'slice'], ['...', 'scalar', 'slice'], ['slice', 'scalar', '...'], ['scalar', '...', 'scalar']]
            else:
                forms += [['scalar', '...', 'slice'], ['scalar', 'slice', '...']]
            for f in forms:
                add('ellipsis-%s-%dd-%s' % (via, nd, '_'.join(x.replace('...', 'E') for x in f)), 'ellipsis_nd', cost=1.5 if 'list2' not in f else 4,
                    shape=shape, lkinds=lks, via=via, kinds=f)
    return ts
