"""Operation catalogue shared by C05 and C15: a deterministic selection of the cheap templates of every other property,
and the monitors that ride on them (well-formedness of every constructed DimArray, coherence of cached axis state)."""
import importlib

MODULES = ['C01', 'C02', 'C03', 'C04', 'C06', 'C07', 'C08', 'C09', 'C10', 'C11', 'C12', 'C13', 'C14', 'C16', 'C17', 'C18', 'C19']


def select(max_per_fn=10, max_cost=2.0, modules=None, inplace_ok=True):
    out = []
    for m in (modules or MODULES):
        mod = importlib.import_module('props.' + m)
        byfn = {}
        for t in mod.templates():
            if t.get('tier', 'quick') != 'quick' or t.get('cost', 1.0) > max_cost:
                continue
            if any(0 in sp[1] for sp in t['params'].get('specs', []) if isinstance(sp, (list, tuple)) and len(sp) == 2):
                continue      # zero-length axes in align-like templates: open known finding C06.empty-axis of the borrowed property
            byfn.setdefault(t['fn'], []).append(t)
        for fn, ts in sorted(byfn.items()):
            if (m, fn) in (('C16', 'routing'),):
                continue     # overwrites class members on purpose: not an operation
            # one (cheapest) template per combination of option-like parameters (bool / None / str values), so that
            # every option of every operation is exercised; then thin out evenly to max_per_fn
            buckets = {}
            for t in ts:
                key = tuple(sorted((k, str(v)) for k, v in t['params'].items() if v is None or isinstance(v, (bool, str))))
                cur = buckets.get(key)
                target = max_cost / 2.0        # the richest template that is still cheap
                score = lambda x: (x.get('cost', 1.0) > target, abs(x.get('cost', 1.0) - target))
                if cur is None or score(t) < score(cur):
                    buckets[key] = t
            picked = [buckets[k] for k in sorted(buckets)]
            step = max(1, -(-len(picked) // max_per_fn))
            chosen = picked[::step][:max_per_fn]
            names = set(t['name'] for t in chosen)
            rest = [t for t in ts if t['name'] not in names]
            step2 = max(1, len(rest) // max(1, max_per_fn - len(chosen))) if len(chosen) < max_per_fn else 0
            if step2:
                chosen += rest[::step2][:max_per_fn - len(chosen)]
            for t in chosen:
                out.append({'mod': m, 'fn': fn, 'params': t['params'], 'name': t['name'], 'cost': t.get('cost', 1.0)})
    return out


class Monitor(object):
    """records every DimArray / Dataset constructed while a harness runs"""

    def __init__(self, ctx):
        self.ctx = ctx
        self.arrays = []
        self.datasets = []
        self.at_init = []

    def __enter__(self):
        da = self.ctx.da
        self._init = da.DimArray.__init__
        self._dsinit = da.Dataset.__init__
        mon = self

        def init(self_, *a, **k):
            mon._init(self_, *a, **k)
            mon.arrays.append(self_)
            mon.at_init.append(mon.wellformed_one(self_))

        def dsinit(self_, *a, **k):
            mon._dsinit(self_, *a, **k)
            mon.datasets.append(self_)
        da.DimArray.__init__ = init
        da.Dataset.__init__ = dsinit
        return self

    def __exit__(self, *exc):
        da = self.ctx.da
        da.DimArray.__init__ = self._init
        da.Dataset.__init__ = self._dsinit
        return False

    def wellformed_one(self, a):
        """exactly one axis per dimension, each 1-D with the right length, distinct non-empty str names"""
        try:
            axes = list(a.axes)
            shape = tuple(a.values.shape)
            if len(axes) != len(shape):
                return "axes %d vs ndim %d" % (len(axes), len(shape))
            names = []
            for ax, n in zip(axes, shape):
                v = ax.values
                if getattr(v, 'ndim', None) != 1 or len(v) != n:
                    return "axis %r has shape %r for dimension of size %d" % (ax.name, getattr(v, 'shape', None), n)
                if not isinstance(ax.name, str) or not ax.name:
                    return "axis name %r" % (ax.name,)
                names.append(ax.name)
            if len(set(names)) != len(names):
                return "duplicate dimension names %r" % (names,)
        except Exception as e:       # an object that cannot even be inspected is not well-formed
            return "%s: %s" % (type(e).__name__, e)
        return None

    def wellformed(self):
        bad = [b for b in self.at_init if b]
        for a in self.arrays:
            b = self.wellformed_one(a)
            if b:
                bad.append(b)
        for ds in self.datasets:
            for k in list(ds.keys()):
                v = dict.__getitem__(ds, k)
                if isinstance(v, self.ctx.da.DimArray):
                    b = self.wellformed_one(v)
                    if b:
                        bad.append("dataset variable %r: %s" % (k, b))
        return bad

    def coherent(self):
        """cached axis state is either absent or equal to what a fresh computation gives:
        Axis._monotonic in {None, labels strictly monotonic}; MultiAxis._values in {None, product of member labels}"""
        ctx = self.ctx
        oks = []
        seen = set()
        axes = []
        for a in self.arrays:
            try:
                axes.extend(list(a.axes))
            except Exception:
                pass
        for ds in self.datasets:
            axes.extend(list(ds.axes))
        for ax in axes:
            if id(ax) in seen:
                continue
            seen.add(id(ax))
            d = getattr(ax, '__dict__', {})
            m = d.get('_monotonic', None)
            if m is not None and not hasattr(ax, 'axes'):
                ls = ax.values.tolist()
                try:
                    inc = ctx.AND(*[ls[i] < ls[i + 1] for i in range(len(ls) - 1)])
                    dec = ctx.AND(*[ls[i] > ls[i + 1] for i in range(len(ls) - 1)])
                except TypeError:
                    continue
                mono = ctx.OR(inc, dec)
                oks.append(mono if m else ctx.NOT(mono))
            if hasattr(ax, 'axes') and d.get('_values', None) is not None and len(ax.axes) > 1:
                import itertools
                exp = list(itertools.product(*[sub.values.tolist() for sub in ax.axes]))
                got = d['_values'].tolist()
                oks.append(len(got) == len(exp) and ctx.AND(*[ctx.eq(tuple(g) if isinstance(g, (list, tuple)) else g, e) for g, e in zip(got, exp)]))
            if hasattr(ax, 'axes') and d.get('_size', None) is not None:
                n = 1
                for sub in ax.axes:
                    n *= len(sub.values)
                oks.append(d['_size'] == n)
        return ctx.AND(*oks)


def fresh_copy(ctx, x):
    """a freshly constructed array with the same values, labels and dims (public constructor, copies of the buffers)"""
    return ctx.da.DimArray(x.values.copy(), axes=[(ax.name, ax.values.copy()) for ax in x.axes])


def _same_outcome(ctx, r1, r2):
    from vlib.ctx import Ref, same
    if r1[0] != r2[0]:
        return False
    if r1[0] == 'exc':
        return r1[1] == r2[1]
    a, b = r1[1], r2[1]
    da = ctx.da
    if isinstance(b, da.DimArray):
        if not isinstance(a, da.DimArray):
            return False
        ref = Ref(list(b.dims), [ax.values.tolist() for ax in b.axes], ctx.flat(b.values.tolist()) if b.values.ndim else [b.values.tolist()])
        return same(ctx, a, ref)
    if isinstance(a, da.DimArray):
        return False
    return ctx.eq(ctx.scalar(a), ctx.scalar(b))


def probe(ctx, x):
    """history independence, second step: an array that came out of an operation answers a few further questions exactly like a
    freshly constructed array with the same values, labels and dims"""
    if not isinstance(x, ctx.da.DimArray) or x.values.ndim == 0 or x.values.shape[0] == 0 or x.values.size > 12:
        return True
    try:
        f = fresh_copy(ctx, x)
    except Exception:
        return True
    l0 = x.axes[0].values.tolist()
    first, last = l0[0], l0[-1]
    if isinstance(first, (list, tuple)):
        probes = [lambda a: a.ix[0], lambda a: a.ix[-1:]]
    else:
        probes = [lambda a: a.ix[0], lambda a: a[first], lambda a: a[first:last], lambda a: a.ix[0:1], lambda a: a.take([last], axis=0)]
    oks = []
    for p in probes:
        oks.append(_same_outcome(ctx, ctx.call(lambda: p(x)), ctx.call(lambda: p(f))))
    return ctx.AND(*oks)
