"""C15 - operations do not modify their operands; copies are independent."""
import importlib
from vlib.ctx import Ref, same
from props.C01 import DIMS
from props.C10 import LK
from props import catalogue as cat

EXPLANATION = ("operand-snapshot obligation on the operation catalogue (every non-in-place template generated for C01-C19): after the operation "
               "every operand built by the harness - with symbolic, possibly unsorted labels, metadata with mutable values and a live "
               "transposed sibling sharing its Axis objects - still has its values, dtype kind, labels, axis names, axis and array metadata "
               "(NumPy view semantics are modelled: basic slices, transposes and reshapes alias their source); plus dedicated templates: "
               "copy() is deep in both directions, Dataset insertion / Dataset.copy() / non-in-place Dataset axis operations do not alias the source arrays")
ASSUMPTIONS = ["labels on an axis are pairwise distinct", "aliasing is modelled at the granularity of NumPy views of basic indexing / transpose / reshape / squeeze"]
BOUNDS = {'quick': {'catalogue': 'up to 10 cheap templates per harness function of every property'}, 'thorough': {'catalogue': 'up to 40 per harness function'}}
DEADLINE = {'quick': 120, 'thorough': 1200}


def catalogue(ctx, cmod, cfn, cparams):
    m = importlib.import_module('props.' + cmod)
    f = getattr(m, cfn)
    ctx.c15_mode = True
    ctx.only_operands = True
    ctx.exclude_all_regions = True
    ok = f(ctx, **cparams)
    if ctx.sym:
        ctx.eng.obs = None
    ctx.obs = None
    return ok


def _arr(ctx, shape, lkinds, tag=''):
    nd = len(shape)
    dims = DIMS[:nd]
    labels = [ctx.labels(k, n, 'l%s%s_' % (tag, d)) for d, n, k in zip(dims, shape, lkinds)]
    ncell = 1
    for n in shape:
        ncell *= n
    cells = ctx.cells('f', ncell, 'v' + tag)
    attrs = {'units': ctx.real('u' + tag), 'hist': [1, [2, 3]], 'meta': {'k': [4]}}
    a = ctx.mk(dims, labels, cells, lkinds=lkinds, attrs=attrs)
    a.axes[0].attrs['long_name'] = 'first'
    ctx.operands[-1]['axis_attrs'] = [dict(ax.attrs) for ax in a.axes]
    return a, Ref(dims, labels, cells), attrs


def copy_independent(ctx, shape, lkinds, direction, what):
    """copy() is deep: changing one side never shows through on the other"""
    ctx.c15_mode = False
    a, ref, attrs = _arr(ctx, shape, lkinds)
    b = a.copy()
    oks = [same(ctx, b, ref), b.attrs.get('hist') == [1, [2, 3]], b.attrs.get('meta') == {'k': [4]}, b is not a, b.values is not a.values, b.axes is not a.axes,
           all(x is not y for x, y in zip(a.axes, b.axes)), b.attrs is not a.attrs, b.attrs['hist'] is not a.attrs['hist'],
           b.attrs['meta']['k'] is not a.attrs['meta']['k'], b.axes[0].attrs.get('long_name') == 'first']
    src, other = (b, a) if direction == 'copy' else (a, b)
    nv = ctx.real('newv')
    nl = ctx.label(lkinds[0], 'newl')
    if what == 'values':
        src.values[(0,) * len(shape)] = nv
    elif what == 'values-setitem':
        src[src.axes[0].values[0]] = nv
    elif what == 'fill':
        src.fill(nv)
    elif what == 'labels':
        src.axes[0][0] = nl
    elif what == 'labels-attr':
        setattr(src, src.dims[0], [nl] + src.axes[0].values.tolist()[1:])
    elif what == 'axis-name':
        src.axes[0].name = 'renamed'
    elif what == 'dims':
        src.dims = tuple('r' + d for d in src.dims)
    elif what == 'attrs':
        src.attrs['units'] = nv
        src.attrs['extra'] = 1
        del src.attrs['hist']
    elif what == 'mutable-attr':
        src.attrs['hist'][1].append(9)
        src.attrs['meta']['k'][0] = 0
    elif what == 'axis-attrs':
        src.axes[0].attrs['long_name'] = 'changed'
    elif what == 'sort-axis-inplace':
        src.axes[0].sort()
    # the other side still equals the construction inputs
    oks.append(same(ctx, other, ref))
    oks.append(other.attrs.get('units') is attrs['units'] or ctx.eq(other.attrs.get('units'), attrs['units']))
    oks.append(other.attrs.get('hist') == [1, [2, 3]] and other.attrs.get('meta') == {'k': [4]} and set(other.attrs) == set(attrs))
    oks.append(other.axes[0].attrs.get('long_name') == 'first' and tuple(other.dims) == tuple(ref.dims))
    return ctx.done(ctx.AND(*oks), ctx.observe(other), inplace=True)


def shallow_views(ctx, how):
    """copy(shallow=True) is documented as shallow; everything else that returns a new array must not let *label or name*
    changes of the result travel back into the operand's own axes list"""
    ctx.c15_mode = False
    a, ref, attrs = _arr(ctx, [2, 3], ['i', 'U'])
    if how == 'transpose':
        b = a.T
    elif how == 'squeeze':
        b = a.newaxis('z').squeeze()
    elif how == 'index':
        b = a[a.axes[0].values.tolist()]
    elif how == 'reindex':
        b = a.reindex_axis(a.axes[1].values.tolist(), axis='y')
    elif how == 'arith':
        b = a + 0
    elif how == 'sort':
        b = a.sort_axis(axis='y')
    elif how == 'take_axis':
        b = a.take_axis([0, 1], axis='x', indexing='position')
    # replacing an axis of the result (as Dataset insertion and the axes setter do) must not touch the operand
    b.axes[0] = ctx.da.Axis(ctx.nparray(ctx.labels('i', len(b.axes[0].values), 'nn'), kind='i'), b.axes[0].name)
    return ctx.done(same(ctx, a, ref, attrs=attrs), ctx.observe(a), inplace=True)


def dataset_aliasing(ctx, how):
    """Dataset construction / insertion / copy / non-in-place axis operations never alias the arrays they were given"""
    ctx.c15_mode = False
    da = ctx.da
    a, ra, attrs = _arr(ctx, [2, 2], ['i', 'U'], 'a')
    lb = ra.labels[0]
    b = ctx.mk(['x'], [lb], ctx.cells('f', 2, 'vb'), lkinds=['i'])
    new = ctx.labels('i', 2, 'nn')
    if how.startswith('setitem'):
        ds = da.Dataset()
        ds['a'] = a
        ds['b'] = b
    else:
        ds = da.Dataset({'a': a, 'b': b}) if how.startswith('ctor') else da.Dataset(a=a, b=b)
    op = how.split('-', 1)[1]
    snap_ds = None
    if op == 'set_axis':
        ds.set_axis(list(new), axis='x')
    elif op == 'rename_axes':
        ds.rename_axes({'x': 'time'})
    elif op == 'axis-item':
        ds.axes['x'][0] = new[0]
    elif op == 'axes-setitem':
        ds.axes['x'] = da.Axis(ctx.nparray(new, kind='i'), 'x')
    elif op == 'var-values':
        ds['a'].values[0, 0] = ctx.real('nv')
    elif op == 'var-attrs':
        ds['a'].attrs['hist'].append(5)
        ds['a'].attrs['new'] = 1
    elif op == 'copy-set_axis':
        d2 = ds.copy()
        d2.set_axis(list(new), axis='x')
        d2.rename_axes({'y': 'yy'})
        snap_ds = ds
    elif op == 'set_axis-notinplace':
        d2 = ds.set_axis(list(new), axis='x', inplace=False)
        snap_ds = ds
    elif op == 'rename_axes-notinplace':
        d2 = ds.rename_axes({'x': 'time'}, inplace=False)
        snap_ds = ds
    elif op == 'rename_keys-notinplace':
        d2 = ds.rename_keys({'a': 'c'}, inplace=False)
        snap_ds = ds
    oks = [same(ctx, a, ra, attrs=attrs)]
    if snap_ds is not None:
        oks.append(list(snap_ds.keys()) == ['a', 'b'] and tuple(snap_ds.dims) == ('x', 'y'))
        oks.append(same(ctx, snap_ds['a'], ra))
        oks.append(ctx.eqlist(snap_ds.axes['x'].values.tolist(), lb))
    return ctx.done(ctx.AND(*oks), ctx.observe(a))


def construct_from(ctx, how):
    """building a new array / Dataset from an existing array never changes (or shares) the source's metadata, axes or values"""
    ctx.c15_mode = False
    da = ctx.da
    a, ra, attrs = _arr(ctx, [2, 2], ['i', 'U'], 'a')
    nv = ctx.real('nv')
    if how == 'DimArray-kwargs':
        b = da.DimArray(a, units2='km', long_name='x')
    elif how == 'DimArray-then-attrs':
        b = da.DimArray(a)
        b.attrs['new'] = 1
        b.attrs['hist'] = 0
    elif how == 'array-kwargs':
        b = da.array(a, name='n')
    elif how == 'DimArray-copy-values':
        b = da.DimArray(a, copy=True)
        b.values[0, 0] = nv
    elif how == 'DimArray-axes-rename':
        b = da.DimArray(a.values.copy(), axes=[ax.copy() for ax in a.axes])
        b.axes[0].name = 'renamed'
    elif how == 'empty_like-fill':
        b = da.zeros_like(a)
        b.fill(nv)
    return ctx.done(same(ctx, a, ra, attrs=attrs), ctx.observe(a))


def comma_axis_operand(ctx, how):
    """an operand whose axis name contains a comma (result of N-d boolean indexing or of flatten) is not renamed by operations"""
    ctx.c15_mode = False
    da = ctx.da
    lx = ctx.labels('i', 2, 'lx')
    ly = ctx.labels('i', 2, 'ly')
    a = ctx.mk(['x', 'y'], [lx, ly], ctx.cells('f', 4, 'v'), register=False)
    if how.startswith('mask'):
        b = a[ctx.nparray([True, False, True, True], [2, 2], kind='b')]
    else:
        b = a.flatten()
    name = 'x,y'
    labels0 = b.axes[0].values.tolist()
    vals0 = b.values.tolist()
    c = ctx.mk(['z'], [ctx.labels('i', 2, 'lz')], ctx.cells('f', 2, 'w'))
    op = how.split('-', 1)[1]
    if op == 'add':
        r = ctx.call(lambda: b + c)
    elif op == 'radd':
        r = ctx.call(lambda: c * b)
    elif op == 'reshape':
        r = ctx.call(lambda: b.reshape(name, 'new'))
    elif op == 'broadcast':
        r = ctx.call(lambda: b.broadcast([da.Axis(ctx.nparray(c.axes[0].values.tolist(), kind='i'), 'z')] + list(b.axes)))
    else:
        r = ctx.call(lambda: da.broadcast_arrays(b, c))
    # (whether an operation supports comma-named axes at all is not claimed: only that the operand is left alone)
    ok = ctx.AND(tuple(b.dims) == (name,), b.axes[0].name == name, ctx.eqlist(b.axes[0].values.tolist(), labels0),
                 ctx.eqlist(b.values.tolist(), vals0), tuple(a.dims) == ('x', 'y'))
    return ctx.done(ok, list(b.dims))


def derived_operand(ctx, src, op, tsize=1):
    """operands that are themselves results of earlier operations (an unlabelled singleton dimension from newaxis, a labelled one
    from take(keepdims), an array sharing its axes with a sibling): an operation leaves them - dims, labels (None included),
    values - exactly as they were.  What the operation returns is the business of C04 / C10 / C12."""
    ctx.c15_mode = False
    da = ctx.da
    lx = ctx.labels('i', 2, 'lx')
    ly = ctx.labels('i', 2, 'ly')
    if src == 'keepdims':
        a = ctx.mk(['x', 'y'], [lx, ly], ctx.cells('f', 4, 'v'))
        b = a.take(ly[0], axis='y', keepdims=True)
    else:
        a = ctx.mk(['x'], [lx], ctx.cells('f', 2, 'v'))
        if src == 'newaxis-first':
            b = a.newaxis('y')
        elif src == 'newaxis':
            b = a.newaxis('y', pos=1)
        elif src == 'neg-of-newaxis':
            b0 = a.newaxis('y', pos=1)
            b = -b0
        elif src == 'sibling-of-newaxis':
            b = a.newaxis('y', pos=1)
            sib = -b
        else:
            raise ValueError(src)
    dims0 = tuple(b.dims)
    labels0 = [ax.values.tolist() for ax in b.axes]
    kinds0 = [ctx.kind_of(ax.values) for ax in b.axes]
    vals0 = ctx.flat(b.values.tolist())
    tdims = list(dims0) if op != 'add-transposed' else list(reversed(dims0))
    ty = ctx.labels('i', tsize, 'ty')
    tl = [lx if d == 'x' else ty for d in tdims]
    t = ctx.mk(tdims, tl, ctx.cells('f', 2 * tsize, 'w'))
    if op == 'broadcast':
        f = lambda: b.broadcast(t)
    elif op == 'broadcast-axes':
        f = lambda: b.broadcast(list(t.axes))
    elif op == 'broadcast_arrays':
        f = lambda: da.broadcast_arrays(b, t)
    elif op == 'broadcast_arrays-rev':
        f = lambda: da.broadcast_arrays(t, b)
    elif op in ('add', 'add-transposed'):
        f = lambda: b + t
    elif op == 'radd':
        f = lambda: t * b
    elif op == 'array':
        f = lambda: da.array([b, t])
    elif op == 'align':
        f = lambda: da.align([b, t])
    elif op == 'reindex_like':
        f = lambda: b.reindex_like(t)
    elif op == 'stack-align':
        f = lambda: da.stack([b, t], align=True)
    elif op == 'concatenate':
        f = lambda: da.concatenate([b, t], axis='x')
    elif op == 'reshape':
        f = lambda: b.reshape('x,y')
    elif op == 'squeeze':
        f = lambda: b.squeeze()
    elif op == 'repeat':
        f = lambda: b.repeat([5, 6], axis='y')
    else:
        raise ValueError(op)
    r = ctx.call(f)
    ok = ctx.AND(tuple(b.dims) == dims0, [ctx.kind_of(ax.values) for ax in b.axes] == kinds0,
                 *([ctx.eqlist(ax.values.tolist(), l) for ax, l in zip(b.axes, labels0)] + [ctx.eqlist(ctx.flat(b.values.tolist()), vals0)]))
    if src == 'sibling-of-newaxis':
        ok = ctx.AND(ok, tuple(sib.dims) == dims0, *[ctx.eqlist(ax.values.tolist(), l) for ax, l in zip(sib.axes, labels0)])
    return ctx.done(ok, [list(b.dims), [ax.values.tolist() for ax in b.axes]])


def serialise(ctx, how, shape):
    """serialisation and conversion of an array whose metadata holds mutable values with NumPy scalars / arrays nested inside:
    the array - values, labels, and the metadata down to the types of the nested items - is left as it was"""
    ctx.c15_mode = True
    da = ctx.da
    nd = len(shape)
    dims = ['x', 'y'][:nd]
    labels = [ctx.labels(k, n, 'l%s_' % d) for d, n, k in zip(dims, shape, ['i', 'U'])]
    ncell = 1
    for n in shape:
        ncell *= n
    a = ctx.mk(dims, labels, ctx.cells('f', ncell, 'v', nan=how.startswith('to_MaskedArray')), lkinds=['i', 'U'][:nd])
    if how == 'to_MaskedArray':
        f = lambda: a.to_MaskedArray()
    elif how == 'to_MaskedArray-nocopy':
        f = lambda: a.to_MaskedArray(copy=False)
    elif how == 'to_json':
        f = lambda: a.to_json()
    elif how == 'to_json-indent':
        f = lambda: a.to_json(indent=2)
    elif how == 'to_jsondict':
        f = lambda: a.to_jsondict()
    elif how == 'roundtrip':
        f = lambda: da.DimArray.from_json(a.to_json())
    elif how == 'repr':
        f = lambda: repr(a)
    elif how == 'str-summary':
        f = lambda: (str(a), a.summary_repr() if hasattr(a, 'summary_repr') else None)
    elif how == 'to_dataset':
        f = lambda: a.to_dataset(axis=0) if hasattr(a, 'to_dataset') else None
    elif how == 'to_list':
        f = lambda: (a.to_list() if hasattr(a, 'to_list') else None, a.tolist() if hasattr(a, 'tolist') else None)
    elif how == 'copy':
        f = lambda: a.copy()
    elif how == 'in-dataset-to_dict':
        def f():
            ds = da.Dataset()
            ds['v'] = a
            return ds.to_dict() if hasattr(ds, 'to_dict') else None
    else:
        raise ValueError(how)
    ctx.call(f)        # what comes out (or whether json can encode symbolic cells at all) is C19's business
    return ctx.done(True, None)


def templates():
    ts = []

    def add(name, fn, tier='quick', cost=1.0, **params):
        ts.append({'name': name, 'fn': fn, 'params': params, 'tier': tier, 'cost': cost})
    for direction in ('copy', 'original'):
        for what in ('values', 'values-setitem', 'fill', 'labels', 'labels-attr', 'axis-name', 'dims', 'attrs', 'mutable-attr', 'axis-attrs', 'sort-axis-inplace'):
            for shape, lks in (([3], ['i']), ([2, 2], ['U', 'f'])):
                add('copy-%s-%s-%s' % (direction, what, 'x'.join(map(str, shape))), 'copy_independent', cost=0.3, shape=shape, lkinds=lks, direction=direction, what=what)
    for how in ('DimArray-kwargs', 'DimArray-then-attrs', 'array-kwargs', 'DimArray-copy-values', 'DimArray-axes-rename', 'empty_like-fill'):
        add('construct-from-%s' % how, 'construct_from', cost=0.3, how=how)
    for src in ('mask', 'flatten'):
        for op in ('add', 'radd', 'reshape', 'broadcast', 'broadcast_arrays'):
            add('comma-axis-%s-%s' % (src, op), 'comma_axis_operand', cost=0.3, how='%s-%s' % (src, op))
    for src in ('newaxis', 'newaxis-first', 'keepdims', 'neg-of-newaxis', 'sibling-of-newaxis'):
        for op in ('broadcast', 'broadcast-axes', 'broadcast_arrays', 'broadcast_arrays-rev', 'add', 'add-transposed', 'radd', 'array', 'align', 'reindex_like', 'stack-align', 'concatenate',
                   'reshape', 'squeeze', 'repeat'):
            for tsize in (1, 2):
                if tsize == 2 and op in ('reshape', 'squeeze', 'repeat'):
                    continue
                add('derived-%s-%s-t%d' % (src, op, tsize), 'derived_operand', cost=0.4, src=src, op=op, tsize=tsize)
    for how in ('to_json', 'to_json-indent', 'to_jsondict', 'roundtrip', 'repr', 'str-summary', 'to_list', 'copy', 'in-dataset-to_dict', 'to_MaskedArray', 'to_MaskedArray-nocopy'):
        for shape in ([2], [2, 2]):
            add('serialise-%s-%s' % (how, 'x'.join(map(str, shape))), 'serialise', cost=0.3, how=how, shape=shape)
    for ctor in ('setitem', 'ctor', 'kwargs'):
        for op in ('set_axis', 'rename_axes', 'axis-item', 'axes-setitem', 'copy-set_axis', 'set_axis-notinplace', 'rename_axes-notinplace', 'rename_keys-notinplace'):
            add('dataset-%s-%s' % (ctor, op), 'dataset_aliasing', cost=0.5, how='%s-%s' % (ctor, op))
    quick = cat.select(max_per_fn=14)
    qn = set((c['mod'], c['name']) for c in quick)
    for c in quick:
        add('cat-%s-%s' % (c['mod'], c['name']), 'catalogue', 'quick', cost=c['cost'] * 1.3, cmod=c['mod'], cfn=c['fn'], cparams=c['params'])
    # operations whose implementation may work on a *view* of the operand (flatten of leading / all dimensions): always in the quick tier
    always = ('tuple-median-2x2-g01', 'tuple-median-2x2x2-g01', 'tuple-cumsum-2x2-g01', 'tuple-max-2x2x2-g12',
              # labels of every kind under operations that compute new labels from the old ones
              'diff-centered-False-n1-m3-f', 'diff-centered-True-n1-m3-f', 'diff-centered-False-n1-m3-i', 'diff-forward-False-n1-m3-f')
    added = set()
    for m in cat.MODULES:
        for t in importlib.import_module('props.' + m).templates():
            if t['name'] in always and (m, t['name']) not in qn:
                add('cat-%s-%s' % (m, t['name']), 'catalogue', 'quick', cost=t.get('cost', 1.0) * 1.3, cmod=m, cfn=t['fn'], cparams=t['params'])
                added.add((m, t['name']))
    for c in cat.select(max_per_fn=40, max_cost=8.0):
        if (c['mod'], c['name']) not in qn and (c['mod'], c['name']) not in added:
            add('cat-%s-%s' % (c['mod'], c['name']), 'catalogue', 'quick' if c['name'] in always else 'thorough', cost=c['cost'] * 1.3, cmod=c['mod'], cfn=c['fn'], cparams=c['params'])
    return ts
