"""C18 - interp_axis is per-fibre linear interpolation, exact at the nodes."""
import itertools
from vlib.ctx import Ref, same
from props.C01 import DIMS
from props.C07 import sorted_positions

EXPLANATION = ("interp_axis / interp_like through the real _interp_internal_maybe_sort (sort_axis), _numpy_interp (1-D), "
               "_interp_internal_get_weights / _interp_internal_from_weight (N-D: np.interp on positions, int / ceil casts, weights, "
               "swapaxes, left / right masks) with symbolic labels in any order, symbolic new points (below / on / between / above), "
               "symbolic fills and data; oracle: piecewise-linear interpolation between the bracketing labels in sorted order, exact "
               "at the nodes, fills outside, axis == new points, other axes and attrs unchanged (nonlinear real arithmetic in z3)")
ASSUMPTIONS = ["labels on the interpolated axis are pairwise distinct numbers; data cells are finite (or NaN in the nan-* templates)", "exact real arithmetic (rounding outside the claim)",
               "issorted=True only under the assumption that the labels are increasing"]
BOUNDS = {'quick': {'nd': '1..3', 'n': '1..3 (4 for one new point)', 'new points': '1..3'}, 'thorough': {'nd': '1..3', 'n': '1..4', 'new points': '1..3'}}
DEADLINE = {'quick': 150, 'thorough': 1500}


def interp_value(ctx, xs, ys, x, left, right):
    """reference: xs sorted increasing (distinct), ys the fibre in the same order"""
    n = len(xs)
    if x < xs[0]:
        return left
    if x > xs[n - 1]:
        return right
    for j in range(n):
        if x == xs[j]:
            return ys[j]
    for j in range(n - 1):
        if x < xs[j + 1]:
            return ys[j] + (x - xs[j]) / (xs[j + 1] - xs[j]) * (ys[j + 1] - ys[j])
    return right


def interp(ctx, shape, pos, lkind='f', k=1, fills='default', issorted=None, dkind='f', newform='list', qkind='f', axis_by='name', like=False, nan=False, under=None):
    ctx.under(under)
    nd = len(shape)
    dims = DIMS[:nd]
    lkinds = ['i', 'U', 'i', 'i'][:nd]
    lkinds[pos] = lkind
    labels = [ctx.labels(kk, n, 'l%s_' % d) for d, n, kk in zip(dims, shape, lkinds)]
    ncell = 1
    for n in shape:
        ncell *= n
    cells = ctx.cells(dkind, ncell, 'v', nan=nan)
    attrs = {'units': 'K'}
    a = ctx.mk(dims, labels, cells, lkinds=lkinds, kind=dkind, attrs=attrs)
    # the other axes carry metadata of their own ("leaves the other axes ... unchanged")
    for i, ax in enumerate(a.axes):
        if i != pos:
            ax.attrs['units'] = 'u%d' % i
    if ctx.operands:
        ctx.operands[-1]['axis_attrs'] = [dict(ax.attrs) for ax in a.axes]
    ref = Ref(dims, labels, cells)
    old = labels[pos]
    n = shape[pos]
    if issorted:
        for i in range(n - 1):
            ctx.assume(old[i] < old[i + 1])
    new = [ctx.label(qkind, 'q%d' % j) for j in range(k)]
    kw = {}
    if fills == 'sym':
        left, right = ctx.real('left'), ctx.real('right')
        kw['left'], kw['right'] = left, right
    else:
        left = right = float('nan')
    if issorted:
        kw['issorted'] = True
    if newform == 'list':
        arg = list(new)
    elif newform == 'tuple':
        arg = tuple(new)
    elif newform == 'axis-othername':
        # an Axis object that is named like ANOTHER dimension of the array: axis= says where to interpolate
        arg = ctx.da.Axis(ctx.nparray(new, kind=qkind), dims[(pos + 1) % nd])
    elif newform == 'axis-samename':
        arg = ctx.da.Axis(ctx.nparray(new, kind=qkind), dims[pos])
    else:
        arg = ctx.nparray(new, kind=qkind)
    if like:
        other = ctx.mk([dims[pos], 'other'], [new, [0]], [0.0] * k, lkinds=[qkind, 'i'], register=False)
        f = lambda: a.interp_like(other, **kw)
    elif axis_by == 'name':
        f = lambda: a.interp_axis(arg, axis=dims[pos], **kw)
    else:
        f = lambda: a.interp_axis(arg, axis=pos, **kw)
    r = ctx.call(f)
    if r[0] != 'ok':
        return ctx.done(False, r[1])
    so = sorted_positions(old)
    xs = [old[i] for i in so]
    eshape = list(shape)
    eshape[pos] = k
    elabels = [list(l) for l in labels]
    elabels[pos] = list(new)
    exp = []
    for p in itertools.product(*[range(m) for m in eshape]):
        ys = []
        for i in so:
            q = list(p)
            q[pos] = i
            ys.append(ref.at(q))
        exp.append(interp_value(ctx, xs, ys, new[p[pos]], left, right))
    others_ok = isinstance(r[1], ctx.da.DimArray) and len(r[1].axes) == nd and all(dict(r[1].axes[i].attrs) == {'units': 'u%d' % i} for i in range(nd) if i != pos)
    return ctx.done(ctx.AND(same(ctx, r[1], Ref(dims, elabels, exp), attrs=attrs), others_ok), ctx.observe(r[1]))


def interp_like2(ctx, via):
    """interp_like onto a template sharing TWO dimensions: successive 1-D interpolation along each of them"""
    lx = ctx.labels('f', 2, 'lx')
    ly = ctx.labels('f', 2, 'ly')
    cells = ctx.cells('f', 4, 'v')
    attrs = {'units': 'K'}
    a = ctx.mk(['x', 'y'], [lx, ly], cells, lkinds=['f', 'f'], attrs=attrs)
    nx = [ctx.real('nx0')]
    ny = [ctx.real('ny0')]
    if via == 'dimarray':
        other = ctx.mk(['y', 'z', 'x'], [ny, [0], nx], [0.0], lkinds=['f', 'i', 'f'], register=False)
    else:
        other = ctx.da.Axes([ctx.da.Axis(ctx.nparray(nx, kind='f'), 'x'), ctx.da.Axis(ctx.nparray(ny, kind='f'), 'y')])
    r = ctx.call(lambda: a.interp_like(other))
    if r[0] != 'ok':
        return ctx.done(False, r[1])
    nanv = float('nan')
    sx = sorted_positions(lx)
    sy = sorted_positions(ly)
    xs = [lx[i] for i in sx]
    ys = [ly[i] for i in sy]
    # along x first (for every y), then along y
    col = []
    for j in sy:
        col.append(interp_value(ctx, xs, [cells[i * 2 + j] for i in sx], nx[0], nanv, nanv))
    if any(ctx.isnan(c) for c in col):
        # NaN propagates through the second interpolation unless the point hits a node whose value is finite: keep it simple, claim only the all-finite case
        exp = None
    else:
        exp = interp_value(ctx, ys, col, ny[0], nanv, nanv)
    if exp is None:
        return ctx.done(True, ctx.observe(r[1]))
    return ctx.done(same(ctx, r[1], Ref(['x', 'y'], [nx, ny], [exp]), attrs=attrs), ctx.observe(r[1]))


def dataset_interp(ctx, n, k, fills='default', via='interp_axis'):
    """Dataset.interp_axis: variables with the axis are interpolated like DimArrays (labels in any stored order), others unchanged"""
    da = ctx.da
    lx = ctx.labels('f', n, 'lx')
    ly = ctx.labels('i', 2, 'ly')
    ca = ctx.cells('f', n, 'va')
    cb = ctx.cells('f', 2 * n, 'vb')
    cc = ctx.cells('f', 2, 'vc')
    a = ctx.mk(['x'], [lx], ca, lkinds=['f'])
    b = ctx.mk(['y', 'x'], [ly, lx], cb, lkinds=['i', 'f'])
    c = ctx.mk(['y'], [ly], cc, lkinds=['i'])
    ds = da.Dataset()
    ds['a'] = a
    ds['b'] = b
    ds['c'] = c
    ds.attrs['title'] = 'T'
    new = [ctx.real('q%d' % j) for j in range(k)]
    kw = {}
    if fills == 'sym':
        left, right = ctx.real('left'), ctx.real('right')
        kw = {'left': left, 'right': right}
    else:
        left = right = float('nan')
    if via == 'interp_axis':
        r = ctx.call(lambda: ds.interp_axis(list(new), axis='x', **kw))
    elif via == 'interp_axis-pos':
        r = ctx.call(lambda: ds.interp_axis(list(new), axis=list(ds.dims).index('x'), **kw))
    elif via == 'like-dimarray':
        other = ctx.mk(['x', 'other'], [new, [0]], [0.0] * k, lkinds=['f', 'i'], register=False)
        r = ctx.call(lambda: ds.interp_like(other, **kw))
    elif via == 'like-dataset':
        ods = da.Dataset()
        ods['o'] = ctx.mk(['x'], [new], [0.0] * k, lkinds=['f'], register=False)
        r = ctx.call(lambda: ds.interp_like(ods, **kw))
    else:
        raise ValueError(via)
    if r[0] != 'ok':
        return ctx.done(False, r[1])
    res = r[1]
    so = sorted_positions(lx)
    xs = [lx[i] for i in so]
    ea = [interp_value(ctx, xs, [ca[i] for i in so], q, left, right) for q in new]
    eb = []
    for j in range(2):
        for q in new:
            eb.append(interp_value(ctx, xs, [cb[j * n + i] for i in so], q, left, right))
    ok = ctx.AND(list(res.keys()) == ['a', 'b', 'c'], same(ctx, res['a'], Ref(['x'], [new], ea)), same(ctx, res['b'], Ref(['y', 'x'], [ly, new], eb)),
                 same(ctx, res['c'], Ref(['y'], [ly], cc)), res.attrs.get('title') == 'T', all(v.axes['x'] is res.axes['x'] for v in (res['a'], res['b'])))
    return ctx.done(ok, ctx.observe(res))


def width_unsigned(ctx, ukind, order):
    """decided by its real-stack replay (dtype widths are not modelled): node labels stored as unsigned integers (differences
    wrap instead of going negative) in any stored order"""
    np = ctx.np
    labs = {'unsorted': [3, 0, 1], 'dec': [3, 1, 0], 'inc': [0, 1, 3], 'unsorted2': [1, 3, 0]}[order]
    new = [0.0, 0.5, 1.0, 2.0, 3.0]
    exp = [0.0, 5.0, 10.0, 20.0, 30.0]
    x = np.array(labs, dtype=ukind)
    a = ctx.da.DimArray(np.array([10.0 * l for l in labs]), axes=[x], dims=['x'])
    b = ctx.da.DimArray(np.array([[10.0 * l for l in labs], [20.0 * l for l in labs]]), axes=[['a', 'b'], x], dims=['k', 'x'])
    r = ctx.call(lambda: (a.interp_axis(new, axis='x'), b.interp_axis(new, axis='x'), a.interp_axis([0, 1, 3], axis='x')))
    if r[0] != 'ok':
        return ctx.done(False, r[1])
    ra, rb, rn = r[1]
    close = lambda u, v: len(u) == len(v) and all(abs(p - q) < 1e-9 for p, q in zip(u, v))
    ok = (ra.axes['x'].values.tolist() == new and close(ra.values.tolist(), exp) and rb.dims == ('k', 'x') and rb.axes['k'].values.tolist() == ['a', 'b']
          and close(rb.values.tolist()[0], exp) and close(rb.values.tolist()[1], [2 * e for e in exp]) and rn.values.tolist() == [0.0, 10.0, 30.0])
    return ctx.done(ok, [ctx.observe(ra), ctx.observe(rb), ctx.observe(rn)])


def templates():
    ts = []

    def add(name, fn, tier='quick', cost=1.0, **params):
        ts.append({'name': name, 'fn': fn, 'params': params, 'tier': tier, 'cost': cost})
    for uk in ('uint8', 'uint16', 'uint64'):
        for order in ('unsorted', 'unsorted2', 'dec', 'inc'):
            add('width-unsigned-%s-%s' % (uk, order), 'width_unsigned', cost=0.1, ukind=uk, order=order)
    pc = {(1, 1): 0.1, (2, 1): 0.2, (3, 1): 1, (4, 1): 8, (1, 2): 0.3, (2, 2): 1, (3, 2): 8, (2, 3): 6, (3, 3): 60, (4, 2): 80}
    for (n, k), c in sorted(pc.items()):
        for lk in 'fi':
            for fills in ('default', 'sym'):
                # 1-D path (np.interp) and N-D path (weights)
                add('1d-%s-n%d-k%d-%s' % (lk, n, k, fills), 'interp', 'quick' if c <= 8 else 'thorough', c, shape=[n], pos=0, lkind=lk, k=k, fills=fills)
                if fills == 'sym' or (n, k) in ((3, 1), (2, 2)):
                    add('2d-%s-n%d-k%d-%s' % (lk, n, k, fills), 'interp', 'quick' if c <= 8 and (lk == 'f' or c <= 1) else 'thorough', c * 1.5,
                        shape=[2, n], pos=1, lkind=lk, k=k, fills=fills)
    for shape, pos in (([3, 2], 0), ([2, 3, 2], 1), ([2, 2, 3], 2), ([3, 2, 2], 0), ([2, 3, 1], 1)):
        for by in ('name', 'pos'):
            add('nd-%s-pos%d-%s' % ('x'.join(map(str, shape)), pos, by), 'interp', cost=3, shape=shape, pos=pos, k=1 if len(shape) == 3 else 2, fills='sym', axis_by=by)
    # NaN samples: nodes stay exact even next to a NaN, segments touching a NaN are NaN
    add('nan-1d', 'interp', cost=3, shape=[3], pos=0, k=1, nan=True, fills='sym')
    add('nan-2d', 'interp', cost=6, shape=[3, 1], pos=0, k=1, nan=True, fills='sym')
    add('nan-2d-b', 'interp', cost=12, shape=[2, 3], pos=1, k=1, nan=True)
    add('sorted-1d', 'interp', cost=1, shape=[3], pos=0, k=2, issorted=True, fills='sym')
    add('sorted-2d', 'interp', cost=1, shape=[2, 3], pos=1, k=2, issorted=True, fills='sym')
    add('int-data-1d', 'interp', cost=1, shape=[3], pos=0, k=1, dkind='i')
    add('int-data-2d', 'interp', cost=1.5, shape=[3, 2], pos=0, k=1, dkind='i', fills='sym')
    add('int-query', 'interp', cost=1, shape=[3], pos=0, k=2, qkind='i', lkind='i')
    add('int-query-2d', 'interp', cost=1.5, shape=[3, 2], pos=0, k=1, qkind='i', lkind='f', newform='array')
    add('array-form', 'interp', cost=1, shape=[3], pos=0, k=2, newform='array', fills='sym')
    for via in ('dimarray', 'axes'):
        add('like-two-axes-%s' % via, 'interp_like2', cost=6, via=via)
    for n, k in ((2, 1), (3, 1), (3, 2)):
        for fills in ('default', 'sym'):
            add('dataset-n%d-k%d-%s' % (n, k, fills), 'dataset_interp', 'quick' if (n, k) != (3, 2) or fills == 'sym' else 'thorough', cost={(2, 1): 1, (3, 1): 4, (3, 2): 20}[(n, k)], n=n, k=k, fills=fills)
    for via in ('interp_axis-pos', 'like-dimarray', 'like-dataset'):
        for fills in ('default', 'sym'):
            add('dataset-%s-%s' % (via, fills), 'dataset_interp', cost=2, n=2, k=1, fills=fills, via=via)
    for shape, pos in (([3], 0), ([2, 3], 1)):
        add('under-position-%s' % 'x'.join(map(str, shape)), 'interp', cost=3, shape=shape, pos=pos, k=1, lkind='i', under={'indexing.by': 'position'})
    add('under-position-like', 'interp', cost=3, shape=[3], pos=0, k=1, lkind='i', like=True, under={'indexing.by': 'position'})
    for nf in ('axis-othername', 'axis-samename', 'tuple'):
        add('newform-%s' % nf, 'interp', cost=2, shape=[2, 3], pos=1, k=2, newform=nf)
        add('newform-%s-pos' % nf, 'interp', cost=2, shape=[3, 2], pos=0, k=1, newform=nf, axis_by='pos')
    # interp_like onto a grid with as many points as the array has (the grids may coincide, nearly coincide or differ)
    add('like-same-size-1d', 'interp', cost=4, shape=[2], pos=0, k=2, like=True, fills='sym')
    add('like-same-size-2d', 'interp', cost=6, shape=[2, 2], pos=1, k=2, like=True)
    add('like-1d', 'interp', cost=1, shape=[3], pos=0, k=2, like=True)
    add('like-2d', 'interp', cost=2, shape=[2, 3], pos=1, k=2, like=True, fills='sym')
    return ts
