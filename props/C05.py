"""C05 - every produced array is well-formed and history-independent."""
import itertools
import importlib
from vlib.ctx import Ref, same
from props.C01 import DIMS
from props.C10 import LK
from props import catalogue as cat

EXPLANATION = ("(a) well-formedness monitor wrapped around DimArray.__init__ / Dataset.__init__ while the operation catalogue (a deterministic "
               "selection of the templates of C01-C19) runs symbolically: every array constructed on every path, intermediates included, and "
               "every Dataset variable has one 1-D axis of the right length per dimension and distinct non-empty str names; (b) all documented "
               "constructor forms build equal arrays, shape / axes disagreement and duplicate names are rejected; (c) history independence as "
               "a cache-coherence invariant: after every catalogue operation, from fresh and from 'primed' operands (axes that have answered "
               "is_monotonic() before), Axis._monotonic and MultiAxis._values/_size are either unset or equal to a fresh computation, and the "
               "primed run answers exactly like the fresh oracle of the respective property")
ASSUMPTIONS = ["labels on an axis are pairwise distinct; dimension names comma-free", "hidden state inspected: Axis._monotonic, MultiAxis._values, MultiAxis._size (the only caches in core/axes.py)"]
BOUNDS = {'quick': {'catalogue': 'up to 10 cheap templates per harness function of every property, fresh and primed'},
          'thorough': {'catalogue': 'up to 40 templates per harness function, fresh and primed'}}
DEADLINE = {'quick': 120, 'thorough': 1200}
QUICK_SAMPLE_COST = 60.0


def catalogue(ctx, cmod, cfn, cparams, prime=False, probe=False, layout=None):
    m = importlib.import_module('props.' + cmod)
    f = getattr(m, cfn)
    ctx.prime_all = prime
    ctx.default_layout = layout      # operands whose value buffer is column-major / a strided view: same answers
    ctx.exclude_all_regions = True
    mon = cat.Monitor(ctx)
    with mon:
        verdict = f(ctx, **cparams)
    bad = mon.wellformed()
    if bad:
        ctx.note('not_wellformed', bad[:3])
        return ctx.done(False, bad[:3], inplace=True)
    ok = mon.coherent()
    if prime or layout:
        ok = ctx.AND(ok, verdict)
    if probe:
        # second step of the history: the most recently constructed arrays (the operation's results) answer like fresh ones
        seen = []
        for x in reversed(mon.arrays):
            if any(x is y for y in seen):
                continue
            seen.append(x)
            if len(seen) > 2:
                break
        ok = ctx.AND(ok, *[cat.probe(ctx, x) for x in seen])
    if ctx.sym:
        ctx.eng.obs = None       # the catalogue compares monitors, not the inner harness' observation
    ctx.obs = None
    return ok


def constructors(ctx, shape, lkinds, dkind='f'):
    """all documented ways of giving the same axes build equal arrays"""
    da, np = ctx.da, ctx.np
    nd = len(shape)
    dims = DIMS[:nd]
    labels = [ctx.labels(k, n, 'l%s_' % d) for d, n, k in zip(dims, shape, lkinds)]
    ncell = 1
    for n in shape:
        ncell *= n
    cells = ctx.cells(dkind, ncell, 'v')
    ref = Ref(dims, labels, cells)
    vals = lambda: ctx.nparray(cells, shape, dkind)
    labs = lambda: [ctx.nparray(l, kind=k) for l, k in zip(labels, lkinds)]
    forms = {
        'lists+dims': lambda: da.DimArray(vals(), axes=[list(l) for l in labels], dims=list(dims)),
        'arrays+dims': lambda: da.DimArray(vals(), axes=labs(), dims=tuple(dims)),
        'labels+dims': lambda: da.DimArray(vals(), labels=labs(), dims=list(dims)),
        'pairs': lambda: da.DimArray(vals(), axes=[(d, l) for d, l in zip(dims, labs())]),
        'pairs-lists': lambda: da.DimArray(vals(), axes=[(d, list(l)) for d, l in zip(dims, labels)]),
        'pairs-positional': lambda: da.DimArray(vals(), [(d, l) for d, l in zip(dims, labs())]),
        'Axis': lambda: da.DimArray(vals(), axes=[da.Axis(l, d) for d, l in zip(dims, labs())]),
        'Axes': lambda: da.DimArray(vals(), axes=da.Axes([da.Axis(l, d) for d, l in zip(dims, labs())])),
        'dict+dims': lambda: da.DimArray(vals(), axes=dict((d, l) for d, l in zip(dims, labs())), dims=list(dims)),
        'dict-reversed+dims': lambda: da.DimArray(vals(), axes=dict(reversed([(d, l) for d, l in zip(dims, labs())])), dims=list(dims)),
        'nested-list-values': lambda: da.DimArray(ref.nested(), axes=[(d, l) for d, l in zip(dims, labs())]),
        'from-dimarray': lambda: da.DimArray(da.DimArray(vals(), axes=[(d, l) for d, l in zip(dims, labs())])),
        'array()': lambda: da.array(vals(), axes=[(d, l) for d, l in zip(dims, labs())]),
        'copy=True': lambda: da.DimArray(vals(), axes=[(d, l) for d, l in zip(dims, labs())], copy=True),
    }
    if nd == 1:
        forms['1d-tuple'] = lambda: da.DimArray(vals(), (dims[0], labs()[0]))
        forms['1d-axis+dim'] = lambda: da.DimArray(vals(), axes=labs()[0], dims=dims[0])
    if dkind == 'f':
        def helper(name):
            def f():
                h = getattr(da, name)(axes=[(d, l) for d, l in zip(dims, labs())])
                h.values[...] = vals()
                return h
            return f
        for name in ('zeros', 'ones', 'empty', 'nans'):
            forms[name] = helper(name)

        def helper_dict(name):
            def f():
                h = getattr(da, name)(axes=dict(reversed([(d, l) for d, l in zip(dims, labs())])), dims=list(dims))
                h.values[...] = vals()
                return h
            return f
        for name in ('zeros', 'ones', 'empty', 'nans'):
            forms[name + '-dict-reversed+dims'] = helper_dict(name)

        def like(name):
            def f():
                base = da.DimArray(vals(), axes=[(d, l) for d, l in zip(dims, labs())])
                h = getattr(da, name)(base)
                h.values[...] = vals()
                return h
            return f
        for name in ('zeros_like', 'ones_like', 'empty_like', 'nans_like'):
            forms[name] = like(name)
    oks = []
    failing = []
    for name, f in sorted(forms.items()):
        r = ctx.call(f)
        ok = r[0] == 'ok' and same(ctx, r[1], ref)
        if ok is False:
            failing.append([name, r[1] if r[0] != 'ok' else ctx.observe(r[1])])
        oks.append(ok)
    # names only: default labels 0..n-1 on every dimension, whichever way the names are given
    if nd:
        dref = Ref(dims, [list(range(n)) for n in shape], cells)
        dforms = {
            'dims-only': lambda: da.DimArray(vals(), dims=list(dims)),
            'dims-tuple': lambda: da.DimArray(vals(), dims=tuple(dims)),
        }
        if nd == 1:
            dforms['dims-str'] = lambda: da.DimArray(vals(), dims=dims[0])
        for name, f in sorted(dforms.items()):
            r = ctx.call(f)
            ok = r[0] == 'ok' and same(ctx, r[1], dref)
            if ok is False:
                failing.append([name, r[1] if r[0] != 'ok' else ctx.observe(r[1])])
            oks.append(ok)
    # helpers really fill what they promise
    if dkind == 'f' and nd:
        z = da.zeros(axes=[(d, l) for d, l in zip(dims, labs())])
        o = da.ones(dims=list(dims), shape=tuple(shape))
        nn = da.nans(axes=[(d, l) for d, l in zip(dims, labs())])
        oks.append(all(c == 0 for c in ctx.flat(z.values.tolist())) and all(c == 1 for c in ctx.flat(o.values.tolist())) and all(ctx.isnan(c) for c in ctx.flat(nn.values.tolist())))
        oks.append(tuple(o.dims) == tuple(dims) and tuple(o.values.shape) == tuple(shape))
    return ctx.done(ctx.AND(*oks), failing[:3])


def nested(ctx, n0, n1):
    """nested dicts / lists of dicts (labels are dict keys: concrete)"""
    da = ctx.da
    k0 = [10 * (i + 1) for i in range(n0)]
    k1 = ['k%d' % j for j in range(n1)]
    cells = ctx.cells('f', n0 * n1, 'v')
    data = dict((a, dict((b, cells[i * n1 + j]) for j, b in enumerate(k1))) for i, a in enumerate(k0))
    ref = Ref(['x', 'y'], [k0, k1], cells)
    oks = []
    obs = []
    r = ctx.call(lambda: da.DimArray(data, dims=['x', 'y']))
    oks.append(r[0] == 'ok' and same(ctx, r[1], ref))
    obs.append(r[1] if r[0] != 'ok' else ctx.observe(r[1]))
    r = ctx.call(lambda: da.DimArray.from_nested(data, dims=['x', 'y']))
    oks.append(r[0] == 'ok' and same(ctx, r[1], ref))
    lst = [data[a] for a in k0]
    r = ctx.call(lambda: da.DimArray(lst, dims=['x', 'y'], labels=[list(k0)]))
    oks.append(r[0] == 'ok' and same(ctx, r[1], ref))
    return ctx.done(ctx.AND(*oks), obs)


def nested_leaves(ctx, n0, n1, leaf, lk1='i'):
    """nested containers whose innermost items are 1-D arrays: ndarray leaves with explicit labels for every level, or DimArray
    leaves that bring their own axis - equal to the plain constructor with the same values, labels and dims"""
    da = ctx.da
    k0 = [10 * (i + 1) for i in range(n0)]                 # dict keys: concrete
    l0 = ctx.labels('i', n0, 'a')                           # first-level labels of the list forms: symbolic
    l1 = ctx.labels(lk1, n1, 'b')
    cells = ctx.cells('f', n0 * n1, 'v')
    rows = [cells[i * n1:(i + 1) * n1] for i in range(n0)]
    if leaf == 'ndarray':
        mk = lambda row: ctx.nparray(row, kind='f')
    else:
        mk = lambda row: ctx.mk(['y'], [l1], row, lkinds=[lk1], register=False)
    forms = {}
    refd = Ref(['x', 'y'], [k0, l1], cells)
    refl = Ref(['x', 'y'], [l0, l1], cells)
    if leaf == 'ndarray':
        full_d = [list(k0), ctx.nparray(l1, kind=lk1)]
        full_l = [list(l0), list(l1)]
        forms['dict'] = (lambda: da.DimArray(dict((k, mk(r)) for k, r in zip(k0, rows)), dims=['x', 'y'], labels=full_d), refd)
        forms['dict-from_nested'] = (lambda: da.DimArray.from_nested(dict((k, mk(r)) for k, r in zip(k0, rows)), dims=['x', 'y'], labels=full_d), refd)
        forms['list'] = (lambda: da.DimArray([mk(r) for r in rows], dims=['x', 'y'], labels=full_l), refl)
        forms['list-from_nested'] = (lambda: da.DimArray.from_nested([mk(r) for r in rows], dims=['x', 'y'], labels=full_l), refl)
        forms['list-of-lists'] = (lambda: da.DimArray([list(r) for r in rows], dims=['x', 'y'], labels=full_l), refl)
    else:
        forms['dict'] = (lambda: da.DimArray.from_nested(dict((k, mk(r)) for k, r in zip(k0, rows)), dims=['x']), refd)
        forms['dict-ctor'] = (lambda: da.DimArray(dict((k, mk(r)) for k, r in zip(k0, rows)), dims=['x']), refd)
        forms['list'] = (lambda: da.DimArray.from_nested([mk(r) for r in rows], dims=['x'], labels=[list(l0)]), refl)
        forms['array()'] = (lambda: da.array([mk(r) for r in rows], axis='x', keys=list(l0)), refl)
        forms['array()-dict'] = (lambda: da.array(dict((k, mk(r)) for k, r in zip(k0, rows)), axis='x'), refd)
    oks = []
    failing = []
    for name, (f, ref) in sorted(forms.items()):
        r = ctx.call(f)
        ok = r[0] == 'ok' and same(ctx, r[1], ref)
        if ok is False:
            failing.append([name, r[1] if r[0] != 'ok' else ctx.observe(r[1])])
        oks.append(ok)
    return ctx.done(ctx.AND(*oks), failing[:3])


def _perm(ctx, name, values):
    perms = list(itertools.permutations(values))
    return list(perms[ctx.choice(name, len(perms))])


def history(ctx, steps, hashable=False, lkind='i', n=3):
    """a sequence of queries and in-place edits on one array, after which the array answers every lookup like a freshly
    constructed array with its current values, labels and dims.  hashable: labels are concrete numbers in a symbolically
    chosen order (every order is covered) so that look-up structures keyed by label value can be executed."""
    da, np = ctx.da, ctx.np
    if hashable:
        xl = _perm(ctx, 'perm0', [10 * (i + 1) for i in range(n)])
    else:
        xl = ctx.labels(lkind, n, 'lx_')
    yl = ['a', 'b']
    cells = ctx.cells('f', 2 * n, 'v')
    a = ctx.mk(['x', 'y'], [xl, yl], cells, lkinds=[lkind if not hashable else 'i', 'U'], register=False)
    cur = {'x': list(xl), 'cells': list(cells)}
    oks = []
    obs = []

    def fresh_labels(tag):
        if hashable:
            return _perm(ctx, 'perm' + tag, [10 * (i + 2) for i in range(n)])      # overlaps the old set, shifted
        return ctx.labels(lkind, n, 'n%s_' % tag)

    def row(j):
        return cur['cells'][2 * j:2 * j + 2]

    for si, st in enumerate(steps):
        tag = str(si)
        if st == 'lookup':
            j = ctx.choice('j' + tag, n)
            r = ctx.call(lambda: a[cur['x'][j]])
            oks.append(r[0] == 'ok' and same(ctx, r[1], Ref(['y'], [yl], row(j))))
        elif st == 'lookup-all':
            for j in range(n):
                r = ctx.call(lambda: a[cur['x'][j]])
                oks.append(r[0] == 'ok' and same(ctx, r[1], Ref(['y'], [yl], row(j))))
        elif st == 'lookup-list':
            r = ctx.call(lambda: a[[cur['x'][n - 1], cur['x'][0]]])
            oks.append(r[0] == 'ok' and same(ctx, r[1], Ref(['x', 'y'], [[cur['x'][n - 1], cur['x'][0]], yl], row(n - 1) + row(0))))
        elif st == 'slice':
            r = ctx.call(lambda: a[cur['x'][0]:cur['x'][0]])
            oks.append(r[0] == 'ok' and same(ctx, r[1], Ref(['x', 'y'], [[cur['x'][0]], yl], row(0))))
        elif st == 'ismono':
            a.axes['x'].is_monotonic()
        elif st == 'sort':
            from props.C07 import sorted_positions
            so = sorted_positions(cur['x'])
            r = ctx.call(lambda: a.sort_axis(axis='x'))
            oks.append(r[0] == 'ok' and same(ctx, r[1], Ref(['x', 'y'], [[cur['x'][i] for i in so], yl], [c for i in so for c in row(i)])))
        elif st == 'copy':
            a = a.copy()
        elif st == 'T':
            a = a.T.T
        elif st.startswith('relabel'):
            new = fresh_labels(tag)
            arr = ctx.nparray(new, kind=lkind if not hashable else 'i')
            how = st.split(':')[1]
            if how == 'attr':
                f = lambda: setattr(a, 'x', list(new))
            elif how == 'attr-array':
                f = lambda: setattr(a, 'x', arr)
            elif how == 'axis-setitem':
                f = lambda: a.axes['x'].__setitem__(slice(None), list(new))
            elif how == 'axis-values':
                f = lambda: setattr(a.axes['x'], 'values', arr)
            elif how == 'labels':
                f = lambda: setattr(a, 'labels', (list(new), list(yl)))
            elif how == 'set_axis':
                f = lambda: a.set_axis(list(new), axis='x', inplace=True)
            elif how == 'set_axis-pos':
                f = lambda: a.set_axis(arr, axis=0, inplace=True)
            elif how == 'axis-set':
                f = lambda: a.axes['x'].set(values=list(new), inplace=True)
            elif how == 'one':
                j = ctx.choice('j' + tag, n)
                new = list(cur['x'])
                new[j] = fresh_labels(tag)[0]
                for k in range(n):
                    if k != j:
                        ctx.assume(ctx.NOT(new[k] == new[j]))
                f = lambda: a.axes['x'].__setitem__(j, new[j])
            else:
                raise ValueError(st)
            r = ctx.call(f)
            if r[0] != 'ok':
                return ctx.done(False, [st, r[1]], inplace=True)
            cur['x'] = list(new)
        elif st == 'put':
            j = ctx.choice('j' + tag, n)
            w = ctx.real('w' + tag)
            r = ctx.call(lambda: a.__setitem__(cur['x'][j], w))
            if r[0] != 'ok':
                return ctx.done(False, [st, r[1]], inplace=True)
            cur['cells'][2 * j:2 * j + 2] = [w, w]
        else:
            raise ValueError(st)
    ref = Ref(['x', 'y'], [cur['x'], yl], cur['cells'])
    oks.append(same(ctx, a, ref))
    for j in range(n):
        r = ctx.call(lambda: a[cur['x'][j]])
        ok = r[0] == 'ok' and same(ctx, r[1], Ref(['y'], [yl], row(j)))
        if ok is False:
            obs.append(['final lookup', j, r[1] if r[0] != 'ok' else ctx.observe(r[1])])
        oks.append(ok)
    # a label that may or may not be on the axis
    q = ctx.label(lkind if not hashable else 'i', 'q')
    r = ctx.call(lambda: a[q])
    hit = [j for j in range(n) if bool(cur['x'][j] == q)]
    if hit:
        oks.append(r[0] == 'ok' and same(ctx, r[1], Ref(['y'], [yl], row(hit[0]))))
    else:
        oks.append(r == ('exc', 'IndexError'))
    r1 = ctx.call(lambda: a[[q]])
    if hit:
        oks.append(r1[0] == 'ok' and same(ctx, r1[1], Ref(['x', 'y'], [[q], yl], row(hit[0]))))
    else:
        oks.append(r1 == ('exc', 'IndexError'))
    oks.append(cat.probe(ctx, a))
    if 'sort' in steps:
        from props.C07 import sorted_positions
        so = sorted_positions(cur['x'])
        r = ctx.call(lambda: a.sort_axis(axis='x'))
        oks.append(r[0] == 'ok' and same(ctx, r[1], Ref(['x', 'y'], [[cur['x'][i] for i in so], yl], [c for i in so for c in row(i)])))
    obs.append(ctx.observe(a))
    return ctx.done(ctx.AND(*oks), obs, inplace=True)


def rejections(ctx, case):
    """data whose shape disagrees with the axes, or duplicate dimension names, are rejected with an exception"""
    da = ctx.da
    l2 = ctx.labels('i', 2, 'a')
    l3 = ctx.labels('i', 3, 'b')
    v23 = lambda: ctx.nparray(ctx.cells('f', 6, 'v'), [2, 3], 'f')
    A = lambda l, d: (d, ctx.nparray(l, kind='i'))
    cases = {
        'wrong-length': lambda: da.DimArray(v23(), axes=[A(l2, 'x'), A(l2, 'y')]),
        'swapped-lengths': lambda: da.DimArray(v23(), axes=[A(l3, 'x'), A(l2, 'y')]),
        'too-few-axes': lambda: da.DimArray(v23(), axes=[A(l2, 'x')]),
        'too-many-axes': lambda: da.DimArray(v23(), axes=[A(l2, 'x'), A(l3, 'y'), A(l2, 'z')]),
        'scalar-with-axis': lambda: da.DimArray(ctx.np.array(ctx.real('s')), axes=[A(l2, 'x')]),
        'too-few-axes-Axis': lambda: da.DimArray(v23(), axes=[da.Axis(ctx.nparray(l2, kind='i'), 'x')]),
        'duplicate-names-pairs': lambda: da.DimArray(v23(), axes=[A(l2, 'x'), A(l3, 'x')]),
        'duplicate-names-dims': lambda: da.DimArray(v23(), axes=[list(l2), list(l3)], dims=['y', 'y']),
        'duplicate-names-Axis': lambda: da.DimArray(v23(), axes=[da.Axis(ctx.nparray(l2, kind='i'), 'x'), da.Axis(ctx.nparray(l3, kind='i'), 'x')]),
        'duplicate-names-shape-only': lambda: da.DimArray(v23(), dims=['x', 'x']),
        'empty-name': lambda: da.DimArray(v23(), axes=[A(l2, ''), A(l3, 'y')]),
        'zeros-shape-mismatch': lambda: da.zeros(axes=[A(l2, 'x')], shape=(2, 3)),
        'values-setter-wrong-shape': lambda: setattr(da.DimArray(v23(), axes=[A(l2, 'x'), A(l3, 'y')]), 'values', ctx.nparray(ctx.cells('f', 4, 'w'), [2, 2], 'f')),
        'axes-setter-wrong-size-Axes': lambda: setattr(da.DimArray(v23()), 'axes', da.Axes([da.Axis(ctx.nparray(l3, kind='i'), 'x'), da.Axis(ctx.nparray(l3, kind='i'), 'y')])),
        'axes-setter-wrong-size-pairs': lambda: setattr(da.DimArray(v23()), 'axes', [A(l3, 'x'), A(l3, 'y')]),
        'axis-values-wrong-size': lambda: setattr(da.DimArray(v23()).axes[0], 'values', ctx.nparray(l3, kind='i')),
        # a scalar is not a sequence of labels, not even for a dimension of length 1
        # a dict of labels with dims= in an order that contradicts the data shape
        'dict-dims-contradict-shape': lambda: da.DimArray(v23(), axes={'a': ctx.nparray(l3, kind='i'), 'b': ctx.nparray(l2, kind='i')}, dims=['a', 'b']),
        'zeros-dict-dims-contradict-shape': lambda: da.zeros(axes={'a': ctx.nparray(l3, kind='i'), 'b': ctx.nparray(l2, kind='i')}, dims=['a', 'b'], shape=(2, 3)),
        'scalar-labels-pairs': lambda: da.DimArray(ctx.nparray([ctx.real('s')], kind='f'), axes=[('x', ctx.int('lab'))]),
        'scalar-labels-dict': lambda: da.DimArray(ctx.nparray([ctx.real('s')], kind='f'), axes={'x': ctx.int('lab')}, dims=['x']),
        'scalar-labels-zeros': lambda: da.zeros(axes=[('x', ctx.int('lab'))]),
        'scalar-labels-Axis': lambda: da.Axis(ctx.int('lab'), 'x'),
        'scalar-labels-axes-setitem': lambda: da.DimArray(ctx.nparray([ctx.real('s')], kind='f'), axes=[('x', [3])]).axes.__setitem__('x', ctx.int('lab')),
        'scalar-labels-axis-values': lambda: setattr(da.DimArray(ctx.nparray([ctx.real('s')], kind='f'), axes=[('x', [3])]).axes['x'], 'values', ctx.int('lab')),
        'scalar-labels-newaxis': lambda: da.DimArray(ctx.nparray([ctx.real('s')], kind='f'), axes=[('x', [3])]).newaxis('z', values=ctx.real('lab')),
        'axes-item-wrong-size': lambda: da.DimArray(v23()).axes.__setitem__(0, da.Axis(ctx.nparray(l3, kind='i'), 'x0')),
    }
    r = ctx.call(cases[case])
    return ctx.done(r[0] == 'exc', r[1] if r[0] != 'ok' else 'accepted')


def rename_duplicate(ctx, how):
    """renaming a dimension to the name of another dimension must not yield an array with duplicate names"""
    da = ctx.da
    a = ctx.mk(['x', 'y'], [ctx.labels('i', 2, 'a'), ctx.labels('i', 2, 'b')], ctx.cells('f', 4, 'v'), register=False)
    if how == 'dims':
        f = lambda: setattr(a, 'dims', ('y', 'y'))
    elif how == 'axis.name':
        f = lambda: setattr(a.axes['x'], 'name', 'y')
    else:
        f = lambda: a.set_axis(name='y', axis='x')
    r = ctx.call(f)
    ctx.region('C05.rename-to-existing-dimension', True)
    ok = len(set(a.dims)) == len(a.dims)
    return ctx.done(ok, list(a.dims), inplace=True)


def templates():
    ts = []

    def add(name, fn, tier='quick', cost=1.0, **params):
        ts.append({'name': name, 'fn': fn, 'params': params, 'tier': tier, 'cost': cost})
    for shape, lks in (([3], ['i']), ([2], ['U']), ([2, 3], ['i', 'U']), ([2, 2], ['f', 'i']), ([1, 2, 2], ['U', 'f', 'i']), ([2, 1, 2], ['i', 'i', 'i'])):
        for dk in 'fi':
            add('constructors-%s-%s-%s' % ('x'.join(map(str, shape)), ''.join(lks), dk), 'constructors', cost=0.5, shape=shape, lkinds=lks, dkind=dk)
    add('nested-2x2', 'nested', cost=0.5, n0=2, n1=2)
    add('nested-1x3', 'nested', cost=0.5, n0=1, n1=3)
    for leaf in ('ndarray', 'dimarray'):
        for n0, n1, lk1 in ((2, 3, 'i'), (2, 2, 'U'), (1, 2, 'f'), (3, 1, 'i')):
            add('nested-leaves-%s-%dx%d-%s' % (leaf, n0, n1, lk1), 'nested_leaves', cost=1, n0=n0, n1=n1, leaf=leaf, lk1=lk1)
    for case in ('wrong-length', 'swapped-lengths', 'too-few-axes', 'too-many-axes', 'scalar-with-axis', 'too-few-axes-Axis', 'duplicate-names-pairs', 'duplicate-names-dims',
                 'duplicate-names-Axis', 'duplicate-names-shape-only', 'empty-name', 'zeros-shape-mismatch', 'values-setter-wrong-shape',
                 'axes-setter-wrong-size-Axes', 'axes-setter-wrong-size-pairs', 'axis-values-wrong-size', 'axes-item-wrong-size',
                 'dict-dims-contradict-shape', 'zeros-dict-dims-contradict-shape', 'scalar-labels-pairs', 'scalar-labels-dict', 'scalar-labels-zeros', 'scalar-labels-Axis', 'scalar-labels-axes-setitem', 'scalar-labels-axis-values', 'scalar-labels-newaxis'):
        add('reject-%s' % case, 'rejections', cost=0.1, case=case)
    for how in ('dims', 'axis.name', 'set_axis'):
        add('rename-duplicate-%s' % how, 'rename_duplicate', cost=0.1, how=how)
    # multi-step histories: queries, in-place relabelling by every route, then every lookup again
    routes = ['attr', 'attr-array', 'axis-setitem', 'axis-values', 'labels', 'set_axis', 'set_axis-pos', 'axis-set', 'one']
    for how in routes:
        for hashable in (False, True):
            for pre in (['lookup'], ['ismono', 'slice'], ['lookup-all', 'ismono']):
                for n in (2, 3):
                    add('history-%s-%s-%s-n%d' % ('_'.join(pre), how, 'hashable' if hashable else 'symbolic', n), 'history',
                        'quick' if n == 2 or (how in ('attr', 'axis-setitem', 'one') and pre[0] == 'lookup') else 'thorough', cost=(1.5 if hashable else 3) * (1 if n == 2 else 6),
                        steps=pre + ['relabel:' + how], hashable=hashable, n=n)
    for hashable in (False, True):
        h = 'hashable' if hashable else 'symbolic'
        for n in (2, 3):
            tier = 'quick' if n == 2 else 'thorough'
            m = 1 if n == 2 else 60
            add('history-copy-after-relabel-%s-n%d' % (h, n), 'history', tier, cost=2 * m, steps=['lookup', 'relabel:attr', 'copy'], hashable=hashable, n=n)
            add('history-copy-before-relabel-%s-n%d' % (h, n), 'history', tier, cost=2 * m, steps=['lookup', 'copy', 'relabel:axis-setitem', 'lookup'], hashable=hashable, n=n)
            add('history-two-relabels-%s-n%d' % (h, n), 'history', tier, cost=4 * m, steps=['lookup', 'relabel:attr', 'lookup', 'relabel:set_axis', 'ismono'], hashable=hashable, n=n)
            add('history-put-%s-n%d' % (h, n), 'history', tier, cost=3 * m, steps=['lookup', 'put', 'lookup-list', 'relabel:one', 'put'], hashable=hashable, n=n)
            add('history-T-%s-n%d' % (h, n), 'history', tier, cost=2 * m, steps=['ismono', 'T', 'relabel:labels', 'slice'], hashable=hashable, n=n)
    for how in ('attr', 'axis-setitem', 'set_axis', 'one', 'labels'):
        for hashable in (False, True):
            add('history-sort-%s-%s' % (how, 'hashable' if hashable else 'symbolic'), 'history', cost=3, steps=['sort', 'relabel:' + how], hashable=hashable, n=3)
    for lk in 'fU':
        add('history-%s-relabel' % lk, 'history', cost=3, steps=['lookup', 'ismono', 'relabel:attr', 'slice'], lkind=lk, n=2)
        add('history-%s-relabel-one' % lk, 'history', cost=3, steps=['ismono', 'lookup-list', 'relabel:one'], lkind=lk, n=3)
    quick = cat.select(max_per_fn=12)
    qnames = set((c['mod'], c['name']) for c in quick)
    for c in quick:
        for prime in (False, True):
            add('cat-%s-%s-%s' % (c['mod'], c['name'], 'primed' if prime else 'fresh'), 'catalogue', 'quick', cost=c['cost'] * 1.2,
                cmod=c['mod'], cfn=c['fn'], cparams=c['params'], prime=prime)
    for c in cat.select(max_per_fn=5, max_cost=1.0):
        add('cat-%s-%s-probed' % (c['mod'], c['name']), 'catalogue', 'quick', cost=c['cost'] * 4, cmod=c['mod'], cfn=c['fn'], cparams=c['params'], prime=False, probe=True)
    for layout in ('F', 'strided'):
        for c in cat.select(max_per_fn=2, max_cost=1.0):
            add('cat-%s-%s-layout%s' % (c['mod'], c['name'], layout), 'catalogue', 'quick', cost=c['cost'] * 1.2, cmod=c['mod'], cfn=c['fn'], cparams=c['params'], layout=layout)
        for c in cat.select(max_per_fn=20, max_cost=6.0):
            add('cat-%s-%s-layout%s-t' % (c['mod'], c['name'], layout), 'catalogue', 'thorough', cost=c['cost'] * 1.2, cmod=c['mod'], cfn=c['fn'], cparams=c['params'], layout=layout)
    for c in cat.select(max_per_fn=40, max_cost=8.0):
        if (c['mod'], c['name']) in qnames:
            continue
        for prime in (False, True):
            add('cat-%s-%s-%s' % (c['mod'], c['name'], 'primed' if prime else 'fresh'), 'catalogue', 'thorough', cost=c['cost'] * 1.2,
                cmod=c['mod'], cfn=c['fn'], cparams=c['params'], prime=prime)
    return ts
