"""C12 - stack and concatenate join arrays without misaligning them."""
import itertools
from vlib.ctx import Ref, same
from props.C01 import find, DIMS
from props.C10 import LK

EXPLANATION = ("stack / concatenate (with and without align=True) through the real align.py code (_check_stack_args, _get_axes, "
               "align, _concatenate_axes, reindex_axis) with symbolic secondary-axis labels of every input (equal / permuted / "
               "overlapping / disjoint are feasible cases), symbolic keys and data; oracle: inputs matched by dimension name and label, "
               "slice at key k == arrays[k] by label, ValueError when secondary axes differ (unless align=True: outer join, NaN elsewhere), "
               "differing dimension order reordered by name or refused")
ASSUMPTIONS = ["labels on an axis are pairwise distinct (labels along the concatenation axis may repeat across inputs)", "data cells finite"]
BOUNDS = {'quick': {'inputs': '1..3', 'secondary axis sizes': '1..2 (3 for a single secondary axis)'}, 'thorough': {'inputs': '1..4', 'secondary axis sizes': '1..3'}}
DEADLINE = {'quick': 150, 'thorough': 1500}


def mk_inputs(ctx, specs, share=None, kinds=None):
    """specs: list of (dims, sizes).  share: list of dims whose labels are identical objects across inputs (cheap, no forks)"""
    share = share or []
    arrs, refs = [], []
    common = {}
    for i, (dims, sizes) in enumerate(specs):
        labels = []
        for d, n in zip(dims, sizes):
            if d in share and d in common and len(common[d]) == n:
                labels.append(common[d])
            else:
                l = ctx.labels((kinds or {}).get('%d:%s' % (i, d), LK[DIMS.index(d)]), n, 'l%d%s_' % (i, d))
                common.setdefault(d, l)
                labels.append(l)
        ncell = 1
        for n in sizes:
            ncell *= n
        cells = ctx.cells('f', ncell, 'v%d' % i)
        a = ctx.mk(dims, labels, cells, lkinds=[(kinds or {}).get('%d:%s' % (i, d), LK[DIMS.index(d)]) for d in dims], attrs={'src': i})
        arrs.append(a)
        refs.append(Ref(dims, labels, cells))
    return arrs, refs


def _labels_equal(ctx, la, lb):
    if len(la) != len(lb):
        return False
    return ctx.AND(*[x == y for x, y in zip(la, lb)])


def stack_case(ctx, specs, keys='default', form='list', align=False, sort=False, share=None, newname='k', kinds=None, under=None):
    ctx.under(under)
    arrs, refs = mk_inputs(ctx, specs, share, kinds)
    n = len(arrs)
    if keys == 'int':
        ks = ctx.labels('i', n, 'key')
    elif keys == 'rank':
        ks = ctx.labels('U', n, 'key')
    elif keys == 'str':
        ks = ['k%d' % i for i in range(n)]
    else:
        ks = None
    kw = {'axis': newname}
    if align:
        kw['align'] = True
    if sort:
        kw['sort'] = True
    if form in ('dict', 'dict-rev', 'dict-subset'):
        names = ['k%d' % i for i in range(n)]
        arg = dict(zip(names, arrs))
        expkeys = names
        if form == 'dict-rev':          # explicit keys in another order than the dict's insertion order
            expkeys = list(reversed(names))
            kw['keys'] = list(expkeys)
        elif form == 'dict-subset':
            expkeys = names[1:]
            kw['keys'] = list(expkeys)
        elif ks is not None:
            kw['keys'] = names
        sel = [names.index(k) for k in expkeys]
        arrs = [arrs[i] for i in sel]
        refs = [refs[i] for i in sel]
        n = len(arrs)
    else:
        arg = list(arrs) if form == 'list' else tuple(arrs)
        if ks is not None:
            kw['keys'] = list(ks)
        expkeys = ks if ks is not None else list(range(n))
    given = list(arg) if isinstance(arg, list) else None
    r = ctx.call(lambda: ctx.da.stack(arg, **kw))
    if given is not None and not (len(arg) == len(given) and all(x is y for x, y in zip(arg, given))):
        return ctx.done(False, 'the list of inputs was modified')
    dims0 = list(refs[0].dims)
    sameorder = all(list(ref.dims) == dims0 for ref in refs)
    sameset = all(sorted(ref.dims) == sorted(dims0) for ref in refs)
    if not sameset:
        return ctx.done(r[0] != 'ok' or True, None)     # outside the property (same set of dimensions)
    # are the secondary axes equal by name (value and order)?
    equal = True
    for d in dims0:
        l0 = refs[0].labels[refs[0].dims.index(d)]
        for ref in refs[1:]:
            equal = ctx.AND(equal, _labels_equal(ctx, l0, ref.labels[ref.dims.index(d)]))
    if not align and not equal:
        return ctx.done(r == ('exc', 'ValueError'), r[1] if r[0] != 'ok' else ctx.observe(r[1]))
    if r[0] != 'ok':
        if not sameorder and r[1] == 'ValueError':
            return ctx.done(True, r[1])           # differing dimension order may be refused
        return ctx.done(False, r[1])
    res = r[1]
    if not isinstance(res, ctx.da.DimArray) or res.dims[0] != newname or sorted(res.dims[1:]) != sorted(dims0):
        return ctx.done(False, ctx.observe(res))
    if sameorder and list(res.dims[1:]) != dims0:
        return ctx.done(False, ctx.observe(res))
    oks = [ctx.eqlist(res.axes[0].values.tolist(), expkeys)]
    rdims = list(res.dims[1:])
    rl = [res.axes[d].values.tolist() for d in rdims]
    if tuple(res.values.shape) != (n,) + tuple(len(l) for l in rl):
        return ctx.done(False, ctx.observe(res))
    for d, got in zip(rdims, rl):
        srcs = [ref.labels[ref.dims.index(d)] for ref in refs]
        for i, j in itertools.combinations(range(len(got)), 2):
            oks.append(ctx.NOT(ctx.eq(got[i], got[j])))
        for s in srcs:
            for l in s:
                oks.append(ctx.OR(*[ctx.eq(l, g) for g in got]))
        for g in got:
            oks.append(ctx.OR(*[ctx.eq(g, l) for s in srcs for l in s]))
        if not align:
            oks.append(ctx.eqlist(got, srcs[0]))
        if sort:
            oks.append(ctx.AND(*[got[i] < got[i + 1] for i in range(len(got) - 1)]))
    vals = res.values.tolist()
    for k, ref in enumerate(refs):
        flat = ctx.flat(vals[k]) if rdims else [vals[k]]
        for idx, pos in enumerate(itertools.product(*[range(len(l)) for l in rl])):
            p = []
            for d, l in zip(ref.dims, ref.labels):
                i = find(l, rl[rdims.index(d)][pos[rdims.index(d)]])
                if i is None:
                    p = None
                    break
                p.append(i)
            if p is None:
                oks.append(ctx.isnan(flat[idx]))
            else:
                oks.append(ctx.eq(flat[idx], ref.at(p)))
    oks.append('src' not in res.attrs)
    return ctx.done(ctx.AND(*oks), ctx.observe(res))


def concat_case(ctx, specs, axis, by='name', align=False, sort=False, share=None, kinds=None, under=None):
    ctx.under(under)
    """concatenate along dims0[axis]"""
    arrs, refs = mk_inputs(ctx, specs, [d for d in (share or []) if d != specs[0][0][axis]], kinds)
    dims0 = list(refs[0].dims)
    cdim = dims0[axis]
    kw = {'axis': cdim if by == 'name' else (axis if by == 'pos' else axis - len(dims0))}
    if align:
        kw['align'] = True
    if sort:
        kw['sort'] = True
    given = list(arrs)
    r = ctx.call(lambda: ctx.da.concatenate(given, **kw))
    if not (len(given) == len(arrs) and all(x is y for x, y in zip(given, arrs))):
        return ctx.done(False, 'the list of inputs was modified')
    sameorder = all(list(ref.dims) == dims0 for ref in refs)
    others = [d for d in dims0 if d != cdim]
    equal = True
    for d in others:
        l0 = refs[0].labels[refs[0].dims.index(d)]
        for ref in refs[1:]:
            equal = ctx.AND(equal, _labels_equal(ctx, l0, ref.labels[ref.dims.index(d)]))
    if not sameorder:
        # reordered by name (a correct result) or refused
        if r[0] != 'ok':
            return ctx.done(r[1] == 'ValueError', r[1])
    elif not align and not equal:
        return ctx.done(r == ('exc', 'ValueError'), r[1] if r[0] != 'ok' else ctx.observe(r[1]))
    if r[0] != 'ok':
        return ctx.done(False, r[1])
    res = r[1]
    if not isinstance(res, ctx.da.DimArray) or sorted(res.dims) != sorted(dims0):
        return ctx.done(False, ctx.observe(res))
    if sameorder and list(res.dims) != dims0:
        return ctx.done(False, ctx.observe(res))
    rdims = list(res.dims)
    rl = [res.axes[d].values.tolist() for d in rdims]
    if tuple(res.values.shape) != tuple(len(l) for l in rl):
        return ctx.done(False, ctx.observe(res))
    oks = []
    cat = []
    owner = []
    for k, ref in enumerate(refs):
        for j, l in enumerate(ref.labels[ref.dims.index(cdim)]):
            cat.append(l)
            owner.append((k, j))
    oks.append(ctx.eqlist(rl[rdims.index(cdim)], cat))          # labels concatenated in the same order
    for d in others:
        got = rl[rdims.index(d)]
        srcs = [ref.labels[ref.dims.index(d)] for ref in refs]
        if not align:
            oks.append(ctx.eqlist(got, srcs[0]))
        else:
            for i, j in itertools.combinations(range(len(got)), 2):
                oks.append(ctx.NOT(ctx.eq(got[i], got[j])))
            for s in srcs:
                for l in s:
                    oks.append(ctx.OR(*[ctx.eq(l, g) for g in got]))
            for g in got:
                oks.append(ctx.OR(*[ctx.eq(g, l) for s in srcs for l in s]))
            if sort:
                oks.append(ctx.AND(*[got[i] < got[i + 1] for i in range(len(got) - 1)]))
    flat = ctx.flat(res.values.tolist())
    if len(cat) != len(rl[rdims.index(cdim)]):
        return ctx.done(False, ctx.observe(res))
    for idx, pos in enumerate(itertools.product(*[range(len(l)) for l in rl])):
        k, j = owner[pos[rdims.index(cdim)]]
        ref = refs[k]
        p = []
        for d, l in zip(ref.dims, ref.labels):
            if d == cdim:
                p.append(j)
                continue
            i = find(l, rl[rdims.index(d)][pos[rdims.index(d)]])
            if i is None:
                p = None
                break
            p.append(i)
        if p is None:
            oks.append(ctx.isnan(flat[idx]))
        else:
            oks.append(ctx.eq(flat[idx], ref.at(p)))
    oks.append('src' not in res.attrs)
    return ctx.done(ctx.AND(*oks), ctx.observe(res))


def templates():
    ts = []

    def add(name, fn, tier='quick', cost=1.0, **params):
        ts.append({'name': name, 'fn': fn, 'params': params, 'tier': tier, 'cost': cost})
    X, Y = 'x', 'y'
    # stack: one secondary axis, 1-3 inputs, sizes 1-3, all key kinds and forms
    for nin in (1, 2, 3):
        for n in (1, 2, 3):
            if nin == 3 and n == 3:
                continue
            for align in (False, True):
                for sort in ((False, True) if align else (False,)):
                    cost = {1: 0.2, 2: 1, 3: 8}[n] * (1 if nin < 3 else 6) * (3 if align else 1)
                    if nin == 3 and n == 2 and align:
                        cost = 150
                    tier = 'quick' if cost <= 10 else 'thorough'
                    add('stack-%din-n%d-%s-%s' % (nin, n, 'align' if align else 'noalign', sort), 'stack_case', tier, cost,
                        specs=[[[X], [n]]] * nin, align=align, sort=sort, keys='int' if n != 2 else 'rank')
    for form, keys in (('dict', 'default'), ('dict', 'str'), ('tuple', 'default'), ('list', 'str'), ('list', 'default')):
        add('stack-form-%s-%s' % (form, keys), 'stack_case', cost=1, specs=[[[X], [2]], [[X], [2]]], form=form, keys=keys)
    add('stack-form-dict-rev', 'stack_case', cost=1, specs=[[[X], [2]], [[X], [2]]], form='dict-rev', share=[X])
    add('stack-form-dict-rev-3', 'stack_case', cost=2, specs=[[[X], [2]], [[X], [2]], [[X], [2]]], form='dict-rev', share=[X])
    add('stack-form-dict-subset', 'stack_case', cost=1, specs=[[[X], [2]], [[X], [2]], [[X], [2]]], form='dict-subset', share=[X])
    # 2-D inputs: same order, different order (square and not), second axis shared to keep it small
    for align in (False, True):
        add('stack-2d-same-%s' % align, 'stack_case', cost=4, specs=[[[X, Y], [2, 2]], [[X, Y], [2, 2]]], align=align, share=[Y])
        add('stack-2d-same-bothfree-%s' % align, 'stack_case', 'thorough', cost=60, specs=[[[X, Y], [2, 2]], [[X, Y], [2, 2]]], align=align)
        add('stack-2d-transposed-square-%s' % align, 'stack_case', cost=4, specs=[[[X, Y], [2, 2]], [[Y, X], [2, 2]]], align=align, share=[X, Y])
        add('stack-2d-transposed-square-free-%s' % align, 'stack_case', cost=6, specs=[[[X, Y], [2, 2]], [[Y, X], [2, 2]]], align=align, share=[Y])
        add('stack-2d-transposed-rect-%s' % align, 'stack_case', cost=4, specs=[[[X, Y], [2, 3]], [[Y, X], [3, 2]]], align=align, share=[X, Y])
        add('stack-2d-singletons-%s' % align, 'stack_case', cost=2, specs=[[[X, Y], [1, 2]], [[X, Y], [1, 2]]], align=align, share=[Y])
        add('stack-3in-2d-%s' % align, 'stack_case', 'quick' if not align else 'off', cost=8 if not align else 3000, specs=[[[X, Y], [2, 1]], [[X, Y], [2, 1]], [[X, Y], [2, 1]]], align=align)
    # 3-D inputs whose dimensions are a rotation of each other (cube and non-cube shapes), labels shared
    for align in (False, True):
        add('stack-3d-rotated-cube-%s' % align, 'stack_case', cost=3, specs=[[['x', 'y', 'z'], [2, 2, 2]], [['y', 'z', 'x'], [2, 2, 2]]], align=align, share=['x', 'y', 'z'])
        add('stack-3d-rotated2-cube-%s' % align, 'stack_case', cost=3, specs=[[['x', 'y', 'z'], [2, 2, 2]], [['z', 'x', 'y'], [2, 2, 2]]], align=align, share=['x', 'y', 'z'])
        add('stack-3d-rotated-%s' % align, 'stack_case', cost=3, specs=[[['x', 'y', 'z'], [2, 3, 1]], [['y', 'z', 'x'], [3, 1, 2]]], align=align, share=['x', 'y', 'z'])
        add('concat-3d-rotated-%s' % align, 'concat_case', cost=3, specs=[[['x', 'y', 'z'], [2, 2, 2]], [['y', 'z', 'x'], [2, 2, 2]]], axis=0, align=align, share=['x', 'y', 'z'])
    # only the secondary (non-concatenation) dimensions are listed in another order; square shapes
    for align in (False, True):
        add('concat-3d-swapped-secondary-%s' % align, 'concat_case', cost=3, specs=[[['z', 'x', 'y'], [2, 2, 2]], [['z', 'y', 'x'], [2, 2, 2]]], axis=0, align=align, share=['x', 'y'])
        add('concat-3d-swapped-secondary-mid-%s' % align, 'concat_case', cost=3, specs=[[['x', 'z', 'y'], [2, 2, 2]], [['y', 'z', 'x'], [2, 2, 2]]], axis=1, align=align, share=['x', 'y'], by='pos')
        add('concat-3d-swapped-secondary-byname-%s' % align, 'concat_case', cost=3, specs=[[['x', 'z', 'y'], [2, 1, 2]], [['y', 'x', 'z'], [2, 2, 2]]], axis=1, align=align, share=['x', 'y'])
    # an int-labelled secondary axis meets float labels under align=True
    add('stack-mixed-kinds-align', 'stack_case', cost=3, specs=[[[X], [2]], [[X], [2]]], align=True, kinds={'0:x': 'i', '1:x': 'f'})
    add('concat-mixed-kinds-align', 'concat_case', cost=4, specs=[[[Y, X], [1, 2]], [[Y, X], [2, 2]]], axis=0, align=True, kinds={'0:x': 'i', '1:x': 'f'})
    # secondary axes of different lengths (a single label next to a longer axis is not a match)
    for align in (False, True):
        add('stack-uneq-3-1-%s' % align, 'stack_case', cost=2, specs=[[[X], [3]], [[X], [1]]], align=align)
        add('stack-uneq-1-2-%s' % align, 'stack_case', cost=2, specs=[[[X], [1]], [[X], [2]]], align=align)
        add('stack-uneq-2d-%s' % align, 'stack_case', cost=3, specs=[[[X, Y], [2, 2]], [[X, Y], [1, 2]]], align=align, share=[Y])
        add('concat-uneq-%s' % align, 'concat_case', cost=3, specs=[[[Y, X], [1, 3]], [[Y, X], [2, 1]]], axis=0, align=align)
    # align=True means an outer join whatever the global default alignment mode
    add('stack-align-under-inner-option', 'stack_case', cost=3, specs=[[[X], [2]], [[X], [2]]], align=True, under={'align.join': 'inner'})
    add('concat-align-under-inner-option', 'concat_case', cost=4, specs=[[[Y, X], [1, 2]], [[Y, X], [2, 2]]], axis=0, align=True, under={'align.join': 'inner'})
    add('stack-0d', 'stack_case', cost=0.2, specs=[[[], []], [[], []]])
    add('stack-4in', 'stack_case', 'thorough', cost=20, specs=[[[X], [2]]] * 4, keys='int')
    # concatenate
    for nin in (1, 2, 3):
        for n in (1, 2):
            add('concat-1d-%din-n%d' % (nin, n), 'concat_case', cost=0.3, specs=[[[X], [n]]] * nin, axis=0)
    # int labels meet real labels along the concatenation axis itself (either order): nothing is truncated
    add('concat-1d-mixed-kinds-if', 'concat_case', cost=0.5, specs=[[[X], [2]], [[X], [2]]], axis=0, kinds={'0:x': 'i', '1:x': 'f'})
    add('concat-1d-mixed-kinds-fi', 'concat_case', cost=0.5, specs=[[[X], [1]], [[X], [2]]], axis=0, kinds={'0:x': 'f', '1:x': 'i'})
    add('concat-2d-mixed-kinds-if', 'concat_case', cost=1, specs=[[[Y, X], [2, 2]], [[Y, X], [2, 1]]], axis=1, kinds={'0:x': 'i', '1:x': 'f'}, share=[Y], by='pos')
    # the concatenation axis given as a negative position (NumPy's convention)
    add('concat-1d-negpos', 'concat_case', cost=0.3, specs=[[[X], [2]], [[X], [1]]], axis=0, by='negpos')
    add('concat-2d-negpos-0', 'concat_case', cost=1, specs=[[[X, Y], [2, 2]], [[X, Y], [1, 2]]], axis=0, by='negpos', share=[Y])
    add('concat-2d-negpos-1', 'concat_case', cost=1, specs=[[[X, Y], [2, 2]], [[X, Y], [2, 1]]], axis=1, by='negpos', share=[X])
    add('concat-1d-mixed-sizes', 'concat_case', cost=0.3, specs=[[[X], [2]], [[X], [1]], [[X], [3]]], axis=0, by='pos')
    for align in (False, True):
        for by in ('name', 'pos'):
            for ax in (0, 1):
                sizes_a = [2, 2]
                sizes_b = [1, 2] if ax == 0 else [2, 1]
                add('concat-2d-ax%d-%s-%s' % (ax, by, align), 'concat_case', cost=3 if not align else 6,
                    specs=[[[X, Y], sizes_a], [[X, Y], sizes_b]], axis=ax, by=by, align=align)
        for sort in (False, True):
            add('concat-2d-3in-%s-%s' % (align, sort), 'concat_case', 'quick' if not align else 'thorough', cost=10 if not align else 150,
                specs=[[[X, Y], [1, 2]], [[X, Y], [2, 2]], [[X, Y], [1, 2]]], axis=0, align=align, sort=sort and align)
            if align:
                add('concat-2d-3in-small-%s' % sort, 'concat_case', cost=8, specs=[[[X, Y], [1, 2]], [[X, Y], [2, 1]], [[X, Y], [1, 2]]], axis=0, align=True, sort=sort)
                add('stack-3in-small-%s' % sort, 'stack_case', cost=8, specs=[[[Y], [2]], [[Y], [1]], [[Y], [2]]], align=True, sort=sort, keys='int')
        add('concat-2d-transposed-%s' % align, 'concat_case', cost=4, specs=[[[X, Y], [2, 2]], [[Y, X], [2, 2]]], axis=0, align=align, share=[X, Y])
        add('concat-3d-%s' % align, 'concat_case', cost=8, specs=[[['x', 'y', 'z'], [1, 2, 2]], [['x', 'y', 'z'], [2, 2, 2]]], axis=0, align=align, share=['z'])
        add('concat-3d-mid-%s' % align, 'concat_case', cost=8, specs=[[['x', 'y', 'z'], [2, 1, 2]], [['x', 'y', 'z'], [2, 2, 2]]], axis=1, by='pos', align=align, share=['z'])
    return ts
