"""C09 - cumulative, difference and arg-extremum operations keep axis bookkeeping right."""
import itertools
from vlib.ctx import Ref, same
from props.C01 import DIMS, find

EXPLANATION = ("cumsum / cumprod / diff / argmin / argmax through the real apply_along_axis, _deal_with_axis, diff, _append_nans, argmin, "
               "argmax with symbolic labels (numeric in any order, or str) and symbolic data (ties and NaN patterns are feasible cases); "
               "oracle: prefix folds with unchanged axes; n-th differences with the scheme's relabelling / NaN padding; returned labels "
               "index an extremal cell")
ASSUMPTIONS = ["labels on an axis are pairwise distinct", "centred differences only claimed on numeric axes (exact real midpoints)"]
BOUNDS = {'quick': {'nd': '1..3', 'size of operated axis': '1..4', 'n': '1..3'}, 'thorough': {'nd': '1..4', 'size of operated axis': '1..5', 'n': '1..3'}}
DEADLINE = {'quick': 120, 'thorough': 1200}


def _build(ctx, shape, lkinds, dkind='f', nan=False, inf=False):
    nd = len(shape)
    dims = DIMS[:nd]
    labels = [ctx.labels(k, n, 'l%s_' % d) for d, n, k in zip(dims, shape, lkinds)]
    ncell = 1
    for n in shape:
        ncell *= n
    cells = ctx.cells(dkind, ncell, 'v', nan=nan, inf=inf)
    attrs = {'units': 'K'}
    a = ctx.mk(dims, labels, cells, lkinds=lkinds, kind=dkind, attrs=attrs)
    return a, Ref(dims, labels, cells), dims, labels, attrs


def _axarg(dims, axis):
    if axis == 'default':
        return {}, len(dims) - 1
    if isinstance(axis, str):
        i = int(axis[4:])
        return {'axis': dims[i]}, i
    return {'axis': axis}, axis % len(dims)


def _fibres(shape, pos):
    """yield lists of full positions along dimension pos"""
    others = [range(n) if i != pos else [0] for i, n in enumerate(shape)]
    for base in itertools.product(*others):
        yield [tuple(p if i != pos else k for i, p in enumerate(base)) for k in range(shape[pos])]


def _off(p, shape):
    o = 0
    for x, n in zip(p, shape):
        o = o * n + x
    return o


def cum(ctx, shape, func, axis, dkind='f', nan=False, lkinds=None, transposed=False, positional=False):
    lkinds = lkinds or ['i', 'U', 'f', 'i'][:len(shape)]
    a, ref, dims, labels, attrs = _build(ctx, shape, lkinds, dkind, nan)
    if transposed:
        rev = list(reversed(range(len(shape))))
        a = a.transpose([dims[i] for i in rev])
        ref = ref.transpose(rev)
        dims, labels, shape = list(ref.dims), ref.labels, list(ref.shape)
    kw, pos = _axarg(dims, axis)
    if positional and 'axis' in kw:
        r = ctx.call(lambda: getattr(a, func)(kw['axis']))
    else:
        r = ctx.call(lambda: getattr(a, func)(**kw))
    if r[0] != 'ok':
        return ctx.done(False, r[1])
    exp = [None] * len(ref.cells)
    for fib in _fibres(shape, pos):
        acc = None
        for p in fib:
            c = ref.at(p)
            if acc is None:
                acc = c
            elif ctx.isnan(acc) or ctx.isnan(c):
                acc = float('nan')
            else:
                acc = acc + c if func == 'cumsum' else acc * c
            exp[_off(p, shape)] = acc
    return ctx.done(same(ctx, r[1], Ref(dims, labels, exp), attrs=attrs), ctx.observe(r[1]))


def diff(ctx, shape, axis, scheme='backward', keepaxis=False, n=1, lkinds=None, dkind='f', positional=False):
    lkinds = lkinds or ['i', 'f', 'i', 'i'][:len(shape)]
    a, ref, dims, labels, attrs = _build(ctx, shape, lkinds, dkind)
    kw, pos = _axarg(dims, axis)
    if scheme != 'backward':
        kw['scheme'] = scheme
    if keepaxis:
        kw['keepaxis'] = True
    if n != 1:
        kw['n'] = n
    if positional and 'axis' in kw:
        axv = kw.pop('axis')
        r = ctx.call(lambda: a.diff(axv, **kw))        # the axis is the first positional argument
    else:
        r = ctx.call(lambda: a.diff(**kw))
    m = shape[pos]
    if scheme == 'centered' and keepaxis:
        return ctx.done(r == ('exc', 'ValueError'), r[1] if r[0] != 'ok' else ctx.observe(r[1]))
    if scheme == 'centered' and lkinds[pos] == 'U' and m >= 2:
        # midpoints of str labels: a TypeError is acceptable (only numeric axes have midpoints)
        if r[0] != 'ok':
            return ctx.done(r[1] == 'TypeError', r[1])
    if r[0] != 'ok':
        if keepaxis and m <= n:
            pass
        return ctx.done(False, r[1])
    # values: n-th difference along pos
    cur = {}
    for p in ref.positions():
        cur[p] = ref.at(p)
    length = m
    for _ in range(n):
        nxt = {}
        for p, v in cur.items():
            if p[pos] + 1 < length:
                q = tuple(x if i != pos else x + 1 for i, x in enumerate(p))
                nxt[p] = cur[q] - v
        cur = nxt
        length = max(length - 1, 0)
    lab = list(labels[pos])
    if keepaxis:
        newlab = lab
        newlen = m
        shift = min(n, m) if scheme == 'backward' else 0
    else:
        newlen = length
        shift = 0
        if scheme == 'backward':
            newlab = lab[n:]
        elif scheme == 'forward':
            newlab = lab[:length]
        else:
            newlab = lab
            for _ in range(n):
                newlab = [0.5 * (newlab[i] + newlab[i + 1]) for i in range(len(newlab) - 1)]
    eshape = list(shape)
    eshape[pos] = newlen
    elabels = [list(l) for l in labels]
    elabels[pos] = newlab
    cells = []
    for p in itertools.product(*[range(k) for k in eshape]):
        src = tuple(x if i != pos else x - shift for i, x in enumerate(p))
        cells.append(cur[src] if src in cur else float('nan'))
    return ctx.done(same(ctx, r[1], Ref(dims, elabels, cells), attrs=attrs), ctx.observe(r[1]))


def argext(ctx, shape, func, axis, skipna=False, nan=False, lkinds=None, transposed=False, under=None):
    ctx.under(under)
    lkinds = lkinds or ['U', 'i', 'f', 'i'][:len(shape)]
    a, ref, dims, labels, attrs = _build(ctx, shape, lkinds, 'f', nan)
    if transposed:
        # the same questions asked of a transposed array (not C-contiguous in NumPy)
        rev = list(reversed(range(len(shape))))
        a = a.transpose([dims[i] for i in rev])
        ref = ref.transpose(rev)
        dims = list(ref.dims)
        labels = ref.labels
        shape = list(ref.shape)
    ismin = func == 'argmin'
    kw = {}
    if skipna:
        kw['skipna'] = True

    def extremal(cell, fibre):
        """cell is an extremum of the fibre (NumPy: a NaN counts as the extremum unless skipped)"""
        anynan = any(ctx.isnan(c) for c in fibre)
        if skipna:
            fibre = [c for c in fibre if not ctx.isnan(c)]
            if ctx.isnan(cell):
                return False
        elif anynan:
            return ctx.isnan(cell)
        return ctx.AND(*[(cell <= c) if ismin else (cell >= c) for c in fibre])
    if axis is None:
        r = ctx.call(lambda: getattr(a, func)(**kw))
        if skipna and all(ctx.isnan(c) for c in ref.cells):
            return ctx.done(r[0] != 'ok' and r[1] == 'ValueError' or r[0] == 'ok', r[1] if r[0] != 'ok' else ctx.observe(r[1]))
        if r[0] != 'ok':
            return ctx.done(False, r[1])
        res = r[1]
        if len(shape) == 1 and not isinstance(res, (tuple, list)):
            res = (res,)
        if not isinstance(res, (tuple, list)) or len(res) != len(shape):
            return ctx.done(False, ctx.observe(res))
        p = []
        for l, q in zip(labels, res):
            i = find(l, ctx.scalar(q))
            if i is None:
                return ctx.done(False, ctx.observe(res))
            p.append(i)
        # indexing the array with the returned labels yields the extremum
        back = ctx.call(lambda: (a.loc[tuple(res)] if under else a[tuple(res)]))     # by label, whatever the default mode
        ok = extremal(ref.at(p), ref.cells)
        if back[0] != 'ok':
            return ctx.done(False, back[1])
        return ctx.done(ctx.AND(ok, ctx.eq(ctx.scalar(back[1]), ref.at(p))), ctx.observe(list(res)))
    kwa, pos = _axarg(dims, axis)
    kw.update(kwa)
    r = ctx.call(lambda: getattr(a, func)(**kw))
    fibs = list(_fibres(shape, pos))
    if skipna and any(all(ctx.isnan(ref.at(p)) for p in fib) for fib in fibs):
        return ctx.done(True if r[0] == 'ok' else r[1] == 'ValueError', r[1] if r[0] != 'ok' else ctx.observe(r[1]))
    if r[0] != 'ok':
        return ctx.done(False, r[1])
    res = r[1]
    keep = [d for i, d in enumerate(dims) if i != pos]
    if not keep:
        i = find(labels[pos], ctx.scalar(res))
        if i is None or isinstance(res, ctx.da.DimArray):
            return ctx.done(False, ctx.observe(res))
        return ctx.done(extremal(ref.cells[i], ref.cells), ctx.observe(res))
    if not isinstance(res, ctx.da.DimArray) or tuple(res.dims) != tuple(keep):
        return ctx.done(False, ctx.observe(res))
    oks = []
    for ax, d in zip(res.axes, keep):
        oks.append(ctx.eqlist(ax.values.tolist(), labels[dims.index(d)]))
    got = ctx.flat(res.values.tolist())
    if len(got) != len(fibs):
        return ctx.done(False, ctx.observe(res))
    for g, fib in zip(got, fibs):
        i = find(labels[pos], g)
        if i is None:
            return ctx.done(False, ctx.observe(res))
        oks.append(extremal(ref.at(fib[i]), [ref.at(p) for p in fib]))
    oks.append(set(res.attrs.keys()) == set(attrs.keys()))
    return ctx.done(ctx.AND(*oks), ctx.observe(res))


def width(ctx, dt, func, axis=None):
    """decided by its real-stack replay (dtype widths are not modelled): cumulative sums / products and differences of narrow
    integer data equal NumPy's on .values (NumPy accumulates narrow integers in the platform integer: no wrap-around)"""
    np, da = ctx.np, ctx.da
    rows = [[100, 100, 100], [3, 50, 7]]
    vals = np.array(rows, dtype=getattr(np, dt))
    a = da.DimArray(vals, axes=[('x', np.array([10, 20])), ('y', np.array([1, 2, 3]))])
    kw = {} if axis is None else {'axis': axis}
    r = ctx.call(lambda: getattr(a, func)(**kw))
    if r[0] != 'ok':
        return ctx.done(False, r[1])
    res = r[1]
    exp = []
    for row in rows:
        acc = []
        t = 0 if func == 'cumsum' else 1
        for c in row:
            t = t + c if func == 'cumsum' else t * c
            acc.append(t)
        exp.append(acc)
    ok = isinstance(res, da.DimArray) and tuple(res.dims) == ('x', 'y') and res.values.tolist() == exp
    return ctx.done(ok, ctx.observe(res))


def templates():
    ts = []

    def add(name, fn, tier='quick', cost=1.0, **params):
        ts.append({'name': name, 'fn': fn, 'params': params, 'tier': tier, 'cost': cost})
    for func in ('cumsum', 'cumprod'):
        for shape in ([1], [3], [2, 3], [3, 1], [2, 2, 3], [2, 3, 2]):
            axes = ['default'] + list(range(len(shape))) + ['name%d' % i for i in range(len(shape))] + [-1]
            for axis in axes:
                add('%s-%s-%s' % (func, 'x'.join(map(str, shape)), axis), 'cum', cost=0.2, shape=shape, func=func, axis=axis)
        add('%s-int' % func, 'cum', cost=0.2, shape=[2, 3], func=func, axis='default', dkind='i')
        add('%s-transposed' % func, 'cum', cost=0.2, shape=[2, 3], func=func, axis='default', transposed=True)
        add('%s-transposed-3d' % func, 'cum', cost=0.3, shape=[2, 3, 2], func=func, axis=0, transposed=True)
        add('%s-nan' % func, 'cum', cost=1, shape=[2, 2], func=func, axis=0, nan=True)
        add('%s-4d' % func, 'cum', 'thorough', cost=2, shape=[2, 2, 2, 2], func=func, axis='name1')
    for scheme in ('backward', 'forward', 'centered'):
        for keepaxis in (False, True):
            for n in (1, 2, 3):
                for m in (1, 2, 3, 4, 5):
                    for lk in ('i', 'f', 'U'):
                        if lk == 'f' and m not in (3, 4):
                            continue
                        add('diff-%s-%s-n%d-m%d-%s' % (scheme, keepaxis, n, m, lk), 'diff', 'quick' if m <= 4 else 'thorough', cost=0.1,
                            shape=[m], axis='default', scheme=scheme, keepaxis=keepaxis, n=n, lkinds=[lk])
                for shape, axis in (([2, 3], 0), ([2, 3], 'name1'), ([3, 2], 'default'), ([2, 3, 2], 1), ([3, 2, 2], 'name0'), ([2, 2, 4], -1), ([4, 1], 0)):
                    add('diff-%s-%s-n%d-%s-%s' % (scheme, keepaxis, n, 'x'.join(map(str, shape)), axis), 'diff', cost=0.3,
                        shape=shape, axis=axis, scheme=scheme, keepaxis=keepaxis, n=n)
    add('diff-int-data', 'diff', cost=0.2, shape=[4], axis=0, dkind='i', n=2)
    add('diff-4d', 'diff', 'thorough', cost=2, shape=[2, 2, 3, 2], axis='name2', scheme='forward', n=2)
    for func in ('argmin', 'argmax'):
        for n in (1, 2, 3, 4):
            for lk in 'iUf':
                add('%s-1d-n%d-%s-none' % (func, n, lk), 'argext', cost=0.1 * 3 ** n, shape=[n], func=func, axis=None, lkinds=[lk])
                add('%s-1d-n%d-%s-axis' % (func, n, lk), 'argext', cost=0.1 * 3 ** n, shape=[n], func=func, axis=0, lkinds=[lk])
        for n in (1, 2, 3):
            for skipna in (False, True):
                add('%s-1d-n%d-nan-%s' % (func, n, skipna), 'argext', cost=0.2 * 4 ** n, shape=[n], func=func, axis=None, skipna=skipna, nan=True)
                add('%s-1d-n%d-nan-%s-axis' % (func, n, skipna), 'argext', cost=0.2 * 4 ** n, shape=[n], func=func, axis='name0', skipna=skipna, nan=True)
        for shape in ([2, 2], [2, 3], [3, 1]):
            for axis in [None] + list(range(len(shape))) + ['name%d' % i for i in range(len(shape))]:
                add('%s-%s-%s' % (func, 'x'.join(map(str, shape)), axis), 'argext', cost=3, shape=shape, func=func, axis=axis)
            add('%s-%s-nan' % (func, 'x'.join(map(str, shape))), 'argext', 'quick' if shape != [2, 3] else 'thorough', cost=6, shape=shape, func=func, axis=0, nan=True)
            add('%s-%s-nan-skipna' % (func, 'x'.join(map(str, shape))), 'argext', 'quick' if shape != [2, 3] else 'thorough', cost=6, shape=shape, func=func, axis=1, nan=True, skipna=True)
        add('%s-3d-axis1' % func, 'argext', cost=8, shape=[2, 2, 2], func=func, axis='name1')
        for shape in ([2, 3], [3, 2], [2, 2, 2]):
            add('%s-transposed-%s-none' % (func, 'x'.join(map(str, shape))), 'argext', cost=4 if len(shape) == 2 else 30, shape=shape, func=func, axis=None, transposed=True,
                tier='quick') if False else add('%s-transposed-%s-none' % (func, 'x'.join(map(str, shape))), 'argext', 'quick' if len(shape) == 2 else 'thorough', 4 if len(shape) == 2 else 30, shape=shape, func=func, axis=None, transposed=True)
            add('%s-transposed-%s-axis0' % (func, 'x'.join(map(str, shape))), 'argext', cost=4, shape=shape, func=func, axis=0, transposed=True)
        add('%s-3d-none' % func, 'argext', 'thorough', cost=30, shape=[2, 2, 2], func=func, axis=None)
    for dt in ('int8', 'int16', 'int32', 'uint8'):
        for func in ('cumsum', 'cumprod'):
            for axis in (None, 'y', 1):
                add('width-%s-%s-%s' % (dt, func, axis), 'width', cost=0.1, dt=dt, func=func, axis=axis)
    # entry points whose meaning is fixed (labels out) under the global option indexing.by = 'position'
    for func in ('argmin', 'argmax'):
        for shape, axis in (([3], None), ([3], 0), ([2, 3], 'name1'), ([2, 2], None)):
            add('%s-under-position-%s-%s' % (func, 'x'.join(map(str, shape)), axis), 'argext', cost=1, shape=shape, func=func, axis=axis, under={'indexing.by': 'position'})
    # the axis given positionally (first argument), on arrays where every dimension has another length
    for shape, axis in (([2, 3, 4], 1), ([2, 3, 4], 0), ([2, 3, 4], 'name1'), ([3, 2], 0), ([2, 3, 4], 2)):
        add('diff-positional-%s-%s' % ('x'.join(map(str, shape)), axis), 'diff', cost=1, shape=shape, axis=axis, positional=True)
        add('cumsum-positional-%s-%s' % ('x'.join(map(str, shape)), axis), 'cum', cost=1, shape=shape, func='cumsum', axis=axis, positional=True)
    return ts
