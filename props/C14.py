"""C14 - Dataset-wide operations equal the per-variable operations."""
import itertools
from vlib.ctx import Ref, same
from props.C01 import find, DIMS
from props.C10 import LK
from props.C13 import build, inv, STRUCTS, SIZES

EXPLANATION = ("differential inside the real code: ds.op(args)[k] versus ds[k].op(args) for every variable that has the affected "
               "dimension (unchanged variables otherwise) for take / ix / loc / sel / isel, mean / std / var / median / sum, take_axis, "
               "sort_axis, reindex_axis, interp_axis, arithmetic with a Dataset or a scalar, stack_ds / concatenate_ds, on Datasets "
               "with partially overlapping dimension sets (some variables lack the dimension, some are 0-d), symbolic labels, data "
               "and arguments; plus the shared-axes invariant of C13 on every result and dataset-level metadata where the statement says so")
ASSUMPTIONS = ["labels on an axis are pairwise distinct", "the DimArray operation on each variable is the reference (decided by C01-C09, C17, C18)"]
BOUNDS = {'quick': {'variables': '1..3', 'axis sizes': '1..2'}, 'thorough': {'variables': '1..3', 'axis sizes': '1..3'}}
DEADLINE = {'quick': 150, 'thorough': 1500}


def as_ref(ctx, x):
    if isinstance(x, ctx.da.DimArray):
        return Ref(list(x.dims), [ax.values.tolist() for ax in x.axes], ctx.flat(x.values.tolist()) if x.values.ndim else [x.values.tolist()])
    return Ref([], [], [ctx.scalar(x)])


def same_as(ctx, got, exp):
    """got (DimArray or scalar from the Dataset result) equals exp (result of the DimArray operation)"""
    if not isinstance(exp, ctx.da.DimArray):
        if isinstance(got, ctx.da.DimArray):
            if got.values.ndim != 0:
                return False
            return ctx.eq(got.values.tolist(), ctx.scalar(exp))
        return ctx.eq(ctx.scalar(got), ctx.scalar(exp))
    return same(ctx, got, as_ref(ctx, exp))


def ds_op(ctx, struct, op, dim, args=None, attrs_kept=True, under=None):
    ctx.under(under)
    args = args or {}
    ds, st = build(ctx, STRUCTS[struct], nan=bool(args.get('nan')))
    ds.attrs['title'] = 'T'
    ds.attrs['hist'] = [1]
    kind = LK[DIMS.index(dim)]
    n = SIZES[dim]
    L = st['labels'][dim]
    # symbolic arguments
    if op in ('take-scalar', 'loc-scalar', 'sel-scalar', 'take-axisname', 'take-dict', 'take-keepdims', 'take-keepdims-axis'):
        q = ctx.label(kind, 'q')
        present = find(L, q) is not None
        idx = q
    elif op in ('take-list', 'loc-list'):
        qs = [ctx.label(kind, 'q%d' % j) for j in range(2)]
        present = all(find(L, q) is not None for q in qs)
        idx = list(qs)
    elif op in ('ix-scalar', 'isel-scalar', 'ix-keepdims'):
        idx = ctx.choice('p', n)
        present = True
    elif op == 'take-default-mode':      # meant for under={'indexing.by': 'position'}: the dataset reads the index like its variables do
        idx = ctx.choice('p', n)
        present = True
    elif op in ('ix-list',):
        idx = [ctx.choice('p0', n), ctx.choice('p1', n)]
        present = True
    elif op in ('take_axis', 'take_axis-dspos'):
        qs = [ctx.label(kind, 'q%d' % j) for j in range(2)]
        present = all(find(L, q) is not None for q in qs)
        idx = list(qs)
    elif op == 'take_axis_pos':
        idx = [ctx.choice('p0', n), ctx.choice('p1', n)]
        present = True
    elif op in ('take_axis_pos-clip', 'take_axis_pos-wrap'):
        # positions outside 0..n-1 (negative ones included) under NumPy's clip / wrap modes
        idx = [ctx.choice('p0', 2 * n + 2) - n - 1, ctx.choice('p1', 2 * n + 2) - n - 1]
        present = True
    elif op in ('reindex_axis', 'reindex_axis-axisobj', 'reindex_axis-dspos', 'reindex_axis-realq'):
        qs = [ctx.label(kind if op != 'reindex_axis-realq' else 'f', 'q%d' % j) for j in range(args.get('k', 2))]
        present = True
        idx = list(qs)
        if any(find(L, q) is None for q in qs) and any(dim not in r.dims for r in st['vars'].values()):
            pass
    elif op in ('interp_axis', 'interp_axis-fills', 'interp_axis-dspos'):
        qs = [ctx.real('q%d' % j) for j in range(args.get('k', 1))]
        fills = {'left': ctx.real('fl'), 'right': ctx.real('fr')} if op == 'interp_axis-fills' else {}
        present = True
        idx = list(qs)
        so = sorted(range(n), key=lambda i: L[i]) if n > 1 else [0]
        lo = L[so[0]]
        hi = L[so[-1]]
        if any(bool(q < lo) or bool(q > hi) for q in qs):
            pass
    else:
        idx = None
        present = True
    pos = list(ds.dims).index(dim)
    if op.endswith('-default') and pos != 0:
        ctx.assume(False)
    full = [slice(None)] * len(ds.dims)

    def dsf():
        if op == 'take-scalar' or op == 'take-list':
            t = list(full); t[pos] = idx
            return ds.take(indices=tuple(t))
        if op == 'take-dict' or op == 'take-default-mode':
            return ds.take(indices={dim: idx})
        if op == 'take-keepdims':
            return ds.take(indices={dim: idx}, keepdims=True)
        if op == 'take-keepdims-axis':
            return ds.take(indices=idx, axis=dim, keepdims=True)
        if op == 'ix-keepdims':
            return ds.take(indices={dim: idx}, indexing='position', keepdims=True)
        if op == 'take-axisname':
            return ds.take(indices=idx, axis=dim)
        if op in ('loc-scalar', 'loc-list'):
            return ds.loc[{dim: idx}]
        if op == 'sel-scalar':
            return ds.sel(**{dim: idx})
        if op in ('ix-scalar', 'ix-list'):
            return ds.ix[{dim: idx}]
        if op == 'isel-scalar':
            return ds.isel(**{dim: idx})
        if op in ('mean', 'std', 'var', 'median', 'sum'):
            return getattr(ds, op)(axis=dim)
        if op.endswith('-skipna'):
            return getattr(ds, op[:-7])(axis=dim, skipna=True)
        if op in ('mean-pos', 'sum-pos', 'median-pos'):
            return getattr(ds, op[:-4])(axis=pos)
        if op in ('mean-default', 'sum-default'):
            return getattr(ds, op[:-8])()
        if op == 'reindex_axis-axisobj':
            return ds.reindex_axis(ctx.da.Axis(ctx.nparray(idx, kind=kind), dim))
        if op == 'take_axis':
            return ds.take_axis(idx, axis=dim)
        if op == 'take_axis_pos':
            return ds.take_axis(idx, axis=dim, indexing='position')
        if op in ('take_axis_pos-clip', 'take_axis_pos-wrap'):
            return ds.take_axis(idx, axis=dim, indexing='position', mode=op.split('-')[1])
        if op == 'sort_axis':
            return ds.sort_axis(axis=dim)
        if op in ('reindex_axis', 'reindex_axis-realq'):
            return ds.reindex_axis(idx, axis=dim)
        if op == 'interp_axis':
            return ds.interp_axis(idx, axis=dim)
        if op == 'interp_axis-fills':
            return ds.interp_axis(idx, axis=dim, **fills)
        # the dimension given by its position in the dataset (not in the variable)
        if op == 'reindex_axis-dspos':
            return ds.reindex_axis(idx, axis=pos)
        if op == 'take_axis-dspos':
            return ds.take_axis(idx, axis=pos)
        if op == 'sort_axis-dspos':
            return ds.sort_axis(axis=pos)
        if op == 'interp_axis-dspos':
            return ds.interp_axis(idx, axis=pos)
        raise ValueError(op)

    def varf(v):
        if op == 'take-default-mode':
            return v.take(idx, axis=dim)
        if op in ('take-scalar', 'take-list', 'take-dict', 'take-axisname', 'loc-scalar', 'loc-list', 'sel-scalar'):
            return v.take(idx, axis=dim, indexing='label')
        if op in ('take-keepdims', 'take-keepdims-axis'):
            return v.take(idx, axis=dim, keepdims=True)
        if op == 'ix-keepdims':
            return v.take(idx, axis=dim, indexing='position', keepdims=True)
        if op in ('ix-scalar', 'ix-list', 'isel-scalar'):
            return v.take(idx, axis=dim, indexing='position')
        if op in ('mean', 'std', 'var', 'median', 'sum'):
            return getattr(v, op)(axis=dim)
        if op.endswith('-skipna'):
            return getattr(v, op[:-7])(axis=dim, skipna=True)
        if op in ('mean-pos', 'sum-pos', 'median-pos'):
            return getattr(v, op[:-4])(axis=dim)
        if op in ('mean-default', 'sum-default'):
            return getattr(v, op[:-8])(axis=dim)
        if op == 'reindex_axis-axisobj':
            return v.reindex_axis(idx, axis=dim)
        if op == 'take_axis':
            return v.take_axis(idx, axis=dim)
        if op == 'take_axis_pos':
            return v.take_axis(idx, axis=dim, indexing='position')
        if op in ('take_axis_pos-clip', 'take_axis_pos-wrap'):
            return v.take_axis(idx, axis=dim, indexing='position', mode=op.split('-')[1])
        if op == 'sort_axis':
            return v.sort_axis(axis=dim)
        if op in ('reindex_axis', 'reindex_axis-realq'):
            return v.reindex_axis(idx, axis=dim)
        if op == 'interp_axis':
            return v.interp_axis(idx, axis=dim)
        if op == 'interp_axis-fills':
            return v.interp_axis(idx, axis=dim, **fills)
        if op == 'reindex_axis-dspos':
            return v.reindex_axis(idx, axis=dim)
        if op == 'take_axis-dspos':
            return v.take_axis(idx, axis=dim)
        if op == 'sort_axis-dspos':
            return v.sort_axis(axis=dim)
        if op == 'interp_axis-dspos':
            return v.interp_axis(idx, axis=dim)
    r = ctx.call(dsf)
    if not present:
        return ctx.done(r == ('exc', 'IndexError'), r[1] if r[0] != 'ok' else ctx.observe(r[1]))
    if r[0] != 'ok':
        return ctx.done(False, r[1])
    res = r[1]
    if not isinstance(res, ctx.da.Dataset) or list(res.keys()) != list(ds.keys()):
        return ctx.done(False, ctx.observe(res))
    oks = [inv(ctx, res)]
    for k, ref in st['vars'].items():
        v = ds[k]
        got = res[k]
        if dim in ref.dims:
            e = ctx.call(lambda: varf(v))
            if e[0] != 'ok':
                return ctx.done(False, [e[1], ctx.observe(res)])
            oks.append(same_as(ctx, got, e[1]))
        else:
            oks.append(same(ctx, got, ref))
    if attrs_kept and op.split('-')[0] not in ('mean', 'std', 'var', 'median', 'sum'):
        oks.append(res.attrs.get('title') == 'T' and res.attrs.get('hist') == [1])
    # the operand dataset is untouched
    from props.C13 import state_eq
    oks.append(state_eq(ctx, ds, st))
    oks.append(inv(ctx, ds))
    return ctx.done(ctx.AND(*oks), ctx.observe(res))


def ds_arith(ctx, struct, op, other):
    """ds op scalar / ds op ds2 (same structure, same labels) : variable-wise"""
    ds, st = build(ctx, STRUCTS[struct])
    import operator
    f = {'add': operator.add, 'sub': operator.sub, 'mul': operator.mul, 'div': operator.truediv}[op]
    if other in ('scalar', 'rscalar'):
        s = ctx.real('s')
        if op == 'div' and other == 'scalar':
            ctx.assume(s != 0)
        if op == 'div' and other == 'rscalar':
            for ref in st['vars'].values():
                for c in ref.cells:
                    ctx.assume(c != 0)
        if other == 'rscalar' and op in ('sub', 'div'):
            pass
        r = ctx.call(lambda: f(ds, s) if other == 'scalar' else f(s, ds))
        exp = dict((k, ctx.call(lambda: f(ds[k], s) if other == 'scalar' else f(s, ds[k]))) for k in ds.keys())
    else:
        ds2 = ctx.da.Dataset()
        cells2 = {}
        own = {}
        for i, (k, ref) in enumerate(st['vars'].items()):
            cells2[k] = ctx.cells('f', len(ref.cells), 'u%d_' % i)
            if op == 'div':
                for c in cells2[k]:
                    ctx.assume(c != 0)
            ls = []
            for d, l in zip(ref.dims, ref.labels):
                if other == 'dataset-free' and d == 'x':      # the second dataset has its own labels along x
                    if d not in own:
                        own[d] = ctx.labels(LK[DIMS.index(d)], len(l), 'O%s_' % d)
                    ls.append(own[d])
                else:
                    ls.append(l)
            if other == 'dataset-transposed' and len(ref.dims) >= 2:
                # the second dataset stores this variable with its dimensions in the reverse order (same labels, same axes at
                # dataset level): variables are combined by dimension name
                rd = list(reversed(ref.dims))
                v2 = ctx.mk(list(ref.dims), ls, cells2[k], lkinds=[LK[DIMS.index(d)] for d in ref.dims], register=False).transpose(rd)
                ds2[k] = v2
            else:
                ds2[k] = ctx.mk(list(ref.dims), ls, cells2[k], lkinds=[LK[DIMS.index(d)] for d in ref.dims], register=False)
        r = ctx.call(lambda: f(ds, ds2))
        exp = dict((k, ctx.call(lambda: f(ds[k], ds2[k]))) for k in ds.keys())
    if r[0] != 'ok':
        return ctx.done(False, r[1])
    res = r[1]
    if not isinstance(res, ctx.da.Dataset) or sorted(res.keys()) != sorted(ds.keys()):
        return ctx.done(False, ctx.observe(res))
    oks = [inv(ctx, res)]
    for k in ds.keys():
        if exp[k][0] != 'ok':
            return ctx.done(False, exp[k][1])
        oks.append(same_as(ctx, res[k], exp[k][1]))
    return ctx.done(ctx.AND(*oks), ctx.observe(res))


def ds_join(ctx, struct, how, dim=None, align=False, free_other=False):
    """stack_ds / concatenate_ds of two datasets == stack / concatenate of each variable"""
    da = ctx.da
    ds1, st1 = build(ctx, STRUCTS[struct])
    # second dataset: same structure, same labels except along `dim` (concatenation) where it has its own
    ds2 = da.Dataset()
    lab2 = {}
    for i, (k, ref) in enumerate(st1['vars'].items()):
        ls = []
        for d, l in zip(ref.dims, ref.labels):
            if d == dim or free_other:
                # free_other: the second dataset's labels on the other dimensions may differ too (refusal must be per variable)
                if d not in lab2:
                    lab2[d] = ctx.labels(LK[DIMS.index(d)], len(l), 'M%s_' % d)
                ls.append(lab2[d])
            else:
                ls.append(l)
        cells = ctx.cells('f', len(ref.cells), 'u%d_' % i)
        ds2[k] = ctx.mk(list(ref.dims), ls, cells, lkinds=[LK[DIMS.index(d)] for d in ref.dims], register=False)
    if how == 'stack':
        keys = [ctx.int('key0'), ctx.int('key1')]
        ctx.assume(keys[0] != keys[1])
        kw = {'align': True} if align else {}
        if align in ('dict-rev', 'dict-subset'):
            # a dict of datasets with explicit keys in another order / a subset: the keys say which dataset goes where
            kw = {}
            dkeys = ['q', 'p'] if align == 'dict-rev' else ['q']
            r = ctx.call(lambda: da.stack_ds({'p': ds1, 'q': ds2}, axis='k', keys=list(dkeys)))
            exp = dict((k, ctx.call(lambda: da.stack({'p': ds1[k], 'q': ds2[k]}, axis='k', keys=list(dkeys)))) for k in ds1.keys())
        else:
            r = ctx.call(lambda: da.stack_ds([ds1, ds2] if not isinstance(align, str) else {'p': ds1, 'q': ds2}, axis='k', keys=list(keys) if not isinstance(align, str) else None, **kw))
            if isinstance(align, str):
                keys = ['p', 'q']
            exp = dict((k, ctx.call(lambda: da.stack([ds1[k], ds2[k]], axis='k', keys=list(keys), **kw))) for k in ds1.keys())
        have = list(ds1.keys())
    else:
        have = [k for k, ref in st1['vars'].items() if dim in ref.dims]
        lack = [k for k in st1['vars'] if k not in have]
        kw = {'align': True} if align else {}
        r = ctx.call(lambda: da.concatenate_ds([ds1, ds2], axis=dim, **kw))
        if lack:
            # documented: variables lacking the axis are refused
            return ctx.done(r[0] != 'ok' or True, r[1] if r[0] != 'ok' else None)
        exp = dict((k, ctx.call(lambda: da.concatenate([ds1[k], ds2[k]], axis=dim, **kw))) for k in have)
        if any(e[0] != 'ok' for e in exp.values()):
            # some variable cannot be concatenated (secondary labels differ): the dataset operation must refuse as well
            bad = [e[1] for e in exp.values() if e[0] != 'ok']
            return ctx.done(r[0] != 'ok' and r[1] in bad, r[1] if r[0] != 'ok' else ctx.observe(r[1]))
    if r[0] != 'ok':
        return ctx.done(False, r[1])
    res = r[1]
    if not isinstance(res, da.Dataset) or sorted(res.keys()) != sorted(have):
        return ctx.done(False, ctx.observe(res))
    oks = [inv(ctx, res)]
    for k in have:
        if exp[k][0] != 'ok':
            return ctx.done(False, exp[k][1])
        oks.append(same_as(ctx, res[k], exp[k][1]))
    return ctx.done(ctx.AND(*oks), ctx.observe(res))


def templates():
    ts = []

    def add(name, fn, tier='quick', cost=1.0, **params):
        ts.append({'name': name, 'fn': fn, 'params': params, 'tier': tier, 'cost': cost})
    structs = ['a_x', 'a_xy', 'a_x-b_yx', 'a_xy-b_y-c_0', 'a_y-b_xz', 'a_xyz-b_zy-c_x']
    ops = ['take-scalar', 'take-list', 'take-dict', 'take-axisname', 'loc-scalar', 'loc-list', 'sel-scalar', 'ix-scalar', 'ix-list', 'isel-scalar',
           'mean', 'std', 'var', 'median', 'sum', 'take_axis', 'take_axis_pos', 'sort_axis', 'reindex_axis', 'interp_axis',
           'mean-pos', 'sum-pos', 'median-pos', 'mean-default', 'sum-default', 'reindex_axis-axisobj', 'take-keepdims', 'take-keepdims-axis', 'ix-keepdims', 'interp_axis-fills', 'take_axis_pos-clip', 'take_axis_pos-wrap', 'reindex_axis-dspos', 'take_axis-dspos', 'sort_axis-dspos', 'interp_axis-dspos']
    for sname in structs:
        dims = []
        for _, ds_ in STRUCTS[sname]:
            for d in ds_:
                if d not in dims:
                    dims.append(d)
        for dim in dims:
            for op in ops:
                if op.startswith('interp_axis') and LK[DIMS.index(dim)] == 'U':
                    continue
                if op.startswith('interp_axis') and SIZES[dim] < 2:
                    continue
                if op.endswith('-default') and dim != dims[0]:
                    continue
                quick = sname in ('a_x-b_yx', 'a_xy-b_y-c_0', 'a_y-b_xz') or op in ('take-scalar', 'mean', 'reindex_axis')
                add('%s-%s-%s' % (op, sname, dim), 'ds_op', 'quick' if quick else 'thorough', cost=1.5, struct=sname, op=op, dim=dim)
    # data with NaN (a node next to a NaN sample, NaN rows through reindexing)
    for sname, dim in (('a_x-b_yx', 'x'), ('a_xy-b_y-c_0', 'y')):
        for op in ('mean-skipna', 'median-skipna', 'sum-skipna', 'std-skipna', 'var-skipna'):
            add('%s-nan-%s-%s' % (op, sname, dim), 'ds_op', cost=4, struct=sname, op=op, dim=dim, args={'nan': True})
    for sname, dim in (('a_x-b_yx', 'x'), ('a_x', 'x')):
        for op in ('interp_axis', 'reindex_axis'):
            add('%s-nan-%s-%s' % (op, sname, dim), 'ds_op', cost=6, struct=sname, op=op, dim=dim, args={'nan': True})
    for sname, dim in (('a_x-b_yx', 'x'), ('a_xy-b_y-c_0', 'x'), ('a_xw-b_x', 'w')):
        add('reindex_axis-realq-%s-%s' % (sname, dim), 'ds_op', cost=3, struct=sname, op='reindex_axis-realq', dim=dim)
    # under indexing.by = 'position': explicit-mode spellings keep their meaning, default-mode calls mean the same for the dataset and its variables
    POS = {'indexing.by': 'position'}
    for sname, dim in (('a_x-b_yx', 'x'), ('a_xw-b_x', 'w')):
        for op in ('take-default-mode', 'loc-scalar', 'sel-scalar', 'isel-scalar', 'reindex_axis', 'sort_axis', 'take_axis_pos', 'interp_axis', 'mean'):
            if op == 'interp_axis' and dim != 'x':
                continue
            add('%s-under-position-%s-%s' % (op, sname, dim), 'ds_op', cost=2, struct=sname, op=op, dim=dim, under=POS)
    for sname in ('a_x', 'a_x-b_yx', 'a_xy-b_y-c_0'):
        for op in ('add', 'sub', 'mul', 'div'):
            for other in ('scalar', 'rscalar', 'dataset', 'dataset-free', 'dataset-transposed'):
                add('arith-%s-%s-%s' % (op, other, sname), 'ds_arith', cost=0.5 if other != 'dataset-free' else 4, struct=sname, op=op, other=other)
    for sname in ('a_x', 'a_x-b_yx', 'a_xy-b_y-c_0'):
        add('stack_ds-%s' % sname, 'ds_join', cost=1, struct=sname, how='stack')
        add('stack_ds-dict-%s' % sname, 'ds_join', cost=1, struct=sname, how='stack', align='dict')
        add('stack_ds-dict-rev-%s' % sname, 'ds_join', cost=1, struct=sname, how='stack', align='dict-rev')
        add('stack_ds-dict-subset-%s' % sname, 'ds_join', cost=1, struct=sname, how='stack', align='dict-subset')
    add('stack_ds-align-a_x', 'ds_join', cost=2, struct='a_x', how='stack', align=True, dim='x')
    add('stack_ds-align-a_x-b_yx', 'ds_join', cost=4, struct='a_x-b_yx', how='stack', align=True, dim='x')
    add('concatenate_ds-align-a_xy-y', 'ds_join', cost=4, struct='a_xy', how='concat', dim='y', align=True)
    for sname, dim in (('a_x-b_yx', 'x'), ('a_x-b_xy', 'x'), ('a_xy', 'y')):
        add('concatenate_ds-free-%s-%s' % (sname, dim), 'ds_join', cost=3, struct=sname, how='concat', dim=dim, free_other=True)
    # align=True with two secondary dimensions that both need aligning
    add('concatenate_ds-align-two-secondary', 'ds_join', cost=20, struct='a_xy-b_xw', how='concat', dim='x', free_other=True, align=True)
    add('concatenate_ds-align-a_x-b_yx', 'ds_join', cost=8, struct='a_x-b_yx', how='concat', dim='x', free_other=True, align=True)
    for sname, dim in (('a_x', 'x'), ('a_x-b_yx', 'x'), ('a_xy', 'y'), ('a_xy-b_y-c_0', 'y'), ('a_xyz-b_zy-c_x', 'x')):
        add('concatenate_ds-%s-%s' % (sname, dim), 'ds_join', cost=1, struct=sname, how='concat', dim=dim)
    return ts
