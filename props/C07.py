"""C07 - reindexing moves data together with its labels."""
import itertools
from vlib.ctx import Ref, same
from props.C01 import build, find, DIMS

EXPLANATION = ("reindex_axis / reindex_like through the real locate_many (argsort + searchsorted + clip), take_axis, put(cast=True) "
               "and Axis.__setitem__ with symbolic old labels (any order), symbolic new labels (subset / superset / disjoint / "
               "permuted / repeated are feasible cases of the same variables), symbolic fill value and data")
ASSUMPTIONS = ["labels on an axis are pairwise distinct (the *new* labels may repeat)"]
BOUNDS = {'quick': {'n': '1..3 (4 for k<=1)', 'k': '0..3', 'nd': '1..3'}, 'thorough': {'n': '1..4', 'k': '0..3', 'nd': '1..3'}}
DEADLINE = {'quick': 120, 'thorough': 1200}


def sorted_positions(labels):
    order = []
    for i, c in enumerate(labels):
        j = len(order)
        while j > 0 and c < labels[order[j - 1]]:
            j -= 1
        order.insert(j, i)
    return order


def reindex(ctx, shape, pos, lkind, k, form='list', fill='nan', raise_error=False, method=None, dkind='f', own=False, axis_by='name', qkind=None, twice=False, under=None):
    ctx.under(under)
    lkinds = ['i'] * len(shape)
    lkinds[pos] = lkind
    a, ref, dims, labels = build(ctx, shape, lkinds, dkind)
    old = labels[pos]
    n = len(old)
    qk = qkind or lkind
    if own:
        new = list(old)
    else:
        new = [ctx.label(qk, 'q%d' % j) for j in range(k)]
    kw = {}
    if fill == 'sym':
        fv = ctx.real('fill')
        kw['fill_value'] = fv
    else:
        fv = float('nan')
    if raise_error:
        kw['raise_error'] = True
    if method:
        kw['method'] = method
    name = dims[pos]
    if form == 'list':
        arg = list(new)
    elif form == 'array':
        arg = ctx.nparray(new, kind=qk)
    elif form == 'own-values':
        arg = a.axes[pos].values
    else:
        arg = ctx.da.Axis(ctx.nparray(new, kind=qk), name)
    if form == 'axis':
        f = lambda: a.reindex_axis(arg, **kw)
    elif axis_by == 'name':
        f = lambda: a.reindex_axis(arg, axis=name, **kw)
    elif axis_by == 'neg':
        f = lambda: a.reindex_axis(arg, axis=pos - len(shape), **kw)
    else:
        f = lambda: a.reindex_axis(arg, axis=pos, **kw)
    if twice:       # the same request on the same operand a second time must give the same (correct) answer
        ctx.call(f)
    r = ctx.call(f)
    found = [find(old, q) for q in new]
    absent = any(p is None for p in found)
    if raise_error and absent:        # documented: raises whenever a requested label is not on the axis (with or without method=)
        return ctx.done(r == ('exc', 'IndexError'), r[1] if r[0] != 'ok' else ctx.observe(r[1]))
    if raise_error and method == 'right':
        # searchsorted(side='right') sends an existing label to its right neighbour, which the found / not-found test then
        # reports as missing: the statement does not say which of the two options wins for labels that are on the axis
        return ctx.done(True, r[1] if r[0] != 'ok' else ctx.observe(r[1]))
    if r[0] != 'ok':
        return ctx.done(False, r[1])
    res = r[1]
    if method:
        so = sorted_positions(old)
        src = []
        for q in new:
            if method == 'left':
                p = len([1 for i in so if old[i] < q])
            else:
                p = len([1 for i in so if old[i] <= q])
            p = min(max(p, 0), n - 1)
            src.append(so[p])
    else:
        src = found
    # expected: axis == new labels; slice at q = old slice (or fill)
    other = [list(range(m)) for m in shape]
    exp_labels = [list(l) for l in labels]
    exp_labels[pos] = list(new)
    exp_shape = list(shape)
    exp_shape[pos] = len(new)
    cells = []
    for p in itertools.product(*[range(m) for m in exp_shape]):
        s = src[p[pos]]
        if s is None:
            cells.append(fv)
        else:
            q = list(p)
            q[pos] = s
            cells.append(ref.at(q))
    exp = Ref(dims, exp_labels, cells)
    kind = None
    if dkind == 'i' and absent and not method:
        kind = 'f'
    return ctx.done(same(ctx, res, exp, check_kind=kind), ctx.observe(res))


def width(ctx, fillkind):
    """decided by its real-stack replay (dtype widths are not modelled): an integer array reindexed with a narrow-float fill value
    keeps the slices at existing labels exactly"""
    np = ctx.np
    big = [16777217, 16777219, 33554433]
    labels = [1, 2, 3]
    a = ctx.mk(['x'], [labels], big, lkinds=['i'], kind='i')
    fv = {'float32': np.float32, 'float16': np.float16}[fillkind](7.0)
    r = ctx.call(lambda: a.reindex_axis([3, 9, 1, 2], axis='x', fill_value=fv))
    if r[0] != 'ok':
        return ctx.done(False, r[1])
    got = r[1].values.tolist()
    ok = ctx.AND(got[0] == 33554433, got[2] == 16777217, got[3] == 16777219, got[1] == 7.0, r[1].axes[0].values.tolist() == [3, 9, 1, 2])
    return ctx.done(ok, ctx.observe(r[1]))


def width_unsigned(ctx, ukind, order):
    """decided by its real-stack replay (dtype widths are not modelled): labels stored as unsigned integers, where differences
    wrap instead of going negative; data still moves with its labels"""
    np = ctx.np
    labs = {'unsorted': [3, 1, 2], 'dec': [3, 2, 1], 'inc': [1, 2, 3], 'unsorted2': [2, 3, 1]}[order]
    a = ctx.da.DimArray(np.array([[10.0 * l, 10.0 * l + 1] for l in labs]), axes=[('x', np.array(labs, dtype=ukind)), ('y', ['a', 'b'])])
    oks = []
    obs = []
    for new, kw in (([1, 2, 3, 4], {}), ([2, 3, 1], {'raise_error': True}), (labs, {}), ([1, 3], {'method': 'left'}), ([4, 1], {})):
        r = ctx.call(lambda: a.reindex_axis(np.array(new, dtype=ukind), axis='x', **kw))
        if r[0] != 'ok':
            return ctx.done(False, r[1])
        got = r[1].values.tolist()
        obs.append(ctx.observe(r[1]))
        oks.append(r[1].axes['x'].values.tolist() == list(new) and r[1].dims == ('x', 'y') and r[1].axes['y'].values.tolist() == ['a', 'b'])
        for l, row in zip(new, got):
            oks.append((row == [10.0 * l, 10.0 * l + 1]) if l in labs else (row[0] != row[0] and row[1] != row[1]))
    return ctx.done(all(oks), obs)


def reindex_like(ctx, lk0, lk1, k0=2, k1=2, via='dimarray'):
    """reindex_like applies the same rule to every dimension shared with the template"""
    a, ref, dims, labels = build(ctx, [2, 2], [lk0, lk1])
    n0 = [ctx.label(lk0, 'n0_%d' % j) for j in range(k0)]
    n1 = [ctx.label(lk1, 'n1_%d' % j) for j in range(k1)]
    for l in (n0, n1):
        if len(l) == 2:
            ctx.assume(l[0] != l[1])
    e = ctx.label('i', 'e0')
    # template: dims (y, z, x) -> shares x and y with a, in another order, plus an extra dimension
    t = ctx.mk(['y', 'z', 'x'], [n1, [e], n0], [0.0] * (k0 * k1), lkinds=[lk1, 'i', lk0])
    if via == 'axes':
        t = t.axes
    elif via == 'dataset':
        ds = ctx.da.Dataset()
        ds['t'] = t
        t = ds
    r = ctx.call(lambda: a.reindex_like(t))
    if r[0] != 'ok':
        return ctx.done(False, r[1])
    f0 = [find(labels[0], q) for q in n0]
    f1 = [find(labels[1], q) for q in n1]
    cells = []
    for i in range(k0):
        for j in range(k1):
            cells.append(float('nan') if f0[i] is None or f1[j] is None else ref.at((f0[i], f1[j])))
    return ctx.done(same(ctx, r[1], Ref(['x', 'y'], [n0, n1], cells)), ctx.observe(r[1]))


def templates():
    ts = []

    def add(name, fn, tier='quick', cost=1.0, **params):
        ts.append({'name': name, 'fn': fn, 'params': params, 'tier': tier, 'cost': cost})
    for lk in 'ifU':
        for n in (1, 2, 3, 4):
            for k in (0, 1, 2, 3):
                cost = {0: 0.1, 1: 0.3, 2: 2, 3: 15}[k] * (1 if n < 4 else 10)
                tier = 'quick' if cost <= 3 or (lk == 'i' and n == 3 and k == 3) else 'thorough'
                add('1d-%s-n%d-k%d' % (lk, n, k), 'reindex', tier, cost, shape=[n], pos=0, lkind=lk, k=k)
    for lk in 'ifU':
        add('own-%s' % lk, 'reindex', cost=0.5, shape=[3], pos=0, lkind=lk, k=3, own=True)
        add('ownvalues-%s' % lk, 'reindex', cost=0.5, shape=[3], pos=0, lkind=lk, k=3, own=True, form='own-values')
    for form in ('array', 'axis'):
        for lk in 'iU':
            add('form-%s-%s' % (form, lk), 'reindex', cost=2, shape=[3], pos=0, lkind=lk, k=2, form=form)
    add('int-axis-real-query', 'reindex', cost=2, shape=[3], pos=0, lkind='i', k=2, qkind='f')
    add('real-axis-int-query', 'reindex', cost=2, shape=[3], pos=0, lkind='f', k=2, qkind='i')
    for fill in ('nan', 'sym'):
        for dk in 'fi':
            add('fill-%s-data-%s' % (fill, dk), 'reindex', cost=2, shape=[3], pos=0, lkind='i', k=2, fill=fill, dkind=dk)
    for lk, dk, fill in (('i', 'f', 'nan'), ('i', 'i', 'sym'), ('U', 'f', 'sym'), ('f', 'i', 'nan')):
        add('twice-%s-%s-%s' % (lk, dk, fill), 'reindex', cost=2, shape=[3], pos=0, lkind=lk, k=3 if lk == 'i' and dk == 'f' else 2, fill=fill, dkind=dk, twice=True)
    add('twice-2d', 'reindex', cost=3, shape=[2, 3], pos=1, lkind='i', k=2, twice=True)
    for fk in ('float32', 'float16'):
        add('width-%s-fill' % fk, 'width', cost=0.1, fillkind=fk)
    for uk in ('uint8', 'uint16', 'uint64'):
        for order in ('unsorted', 'unsorted2', 'dec', 'inc'):
            add('width-unsigned-%s-%s' % (uk, order), 'width_unsigned', cost=0.1, ukind=uk, order=order)
    add('raise-error', 'reindex', cost=2, shape=[3], pos=0, lkind='i', k=2, raise_error=True)
    add('raise-error-U', 'reindex', cost=2, shape=[2], pos=0, lkind='U', k=2, raise_error=True)
    for method in ('left', 'right'):
        for lk in 'if':
            for n, k in ((1, 1), (2, 2), (3, 1), (3, 2)):
                add('method-%s-%s-n%d-k%d' % (method, lk, n, k), 'reindex', cost=2, shape=[n], pos=0, lkind=lk, k=k, method=method)
        add('method-%s-U' % method, 'reindex', cost=2, shape=[3], pos=0, lkind='U', k=1, method=method)
    for method in ('left', 'right'):
        add('raise-error-method-%s' % method, 'reindex', cost=2, shape=[3], pos=0, lkind='i', k=2, raise_error=True, method=method)
        # int axis asked for real labels (and the reverse): the neighbour is the neighbour among the real numbers
        for lk, qk in (('i', 'f'), ('f', 'i')):
            for n, k in ((2, 1), (3, 2)):
                add('method-%s-%s-query-%s-n%d-k%d' % (method, lk, qk, n, k), 'reindex', cost=2, shape=[n], pos=0, lkind=lk, k=k, method=method, qkind=qk)
    # the new labels given as an Axis object naming any dimension
    for shape in ([2, 3], [3, 2], [2, 2, 3]):
        for pos in range(len(shape)):
            if shape[pos] < 2:
                continue
            add('nd-axisobj-%s-pos%d' % ('x'.join(map(str, shape)), pos), 'reindex', cost=3, shape=shape, pos=pos, lkind='iU'[pos % 2], k=2, form='axis', fill='sym' if pos % 2 else 'nan')
    add('nd-axisobj-method', 'reindex', cost=3, shape=[2, 3], pos=1, lkind='i', k=2, form='axis', method='left')
    # N-d: axis position and how it is named
    for shape in ([2, 3], [3, 2], [2, 2, 3], [2, 3, 2], [3, 1, 2]):
        for pos in range(len(shape)):
            if shape[pos] < 2:
                continue
            for axis_by in ('name', 'pos', 'neg'):
                k = 2 if shape[pos] == 3 else 1
                add('nd-%s-pos%d-%s' % ('x'.join(map(str, shape)), pos, axis_by), 'reindex', 'quick' if len(shape) == 2 or axis_by in ('name', 'neg') else 'thorough',
                    cost=3, shape=shape, pos=pos, lkind='iU'[pos % 2], k=k, axis_by=axis_by, fill='sym' if pos else 'nan')
    add('nd-square-neg', 'reindex', cost=3, shape=[2, 2], pos=1, lkind='i', k=2, axis_by='neg')
    add('nd-square-neg-3d', 'reindex', cost=3, shape=[2, 2, 2], pos=1, lkind='i', k=2, axis_by='neg', fill='sym')
    add('under-position-1d', 'reindex', cost=3, shape=[3], pos=0, lkind='i', k=2, under={'indexing.by': 'position'})
    add('under-position-2d', 'reindex', cost=3, shape=[2, 3], pos=1, lkind='i', k=2, fill='sym', under={'indexing.by': 'position'})
    add('under-position-repeated', 'reindex', cost=8, shape=[3], pos=0, lkind='i', k=3, under={'indexing.by': 'position'})
    for lk0, lk1 in (('i', 'i'), ('U', 'f')):
        add('like-%s%s' % (lk0, lk1), 'reindex_like', cost=6, lk0=lk0, lk1=lk1)
    # a template with exactly one label along a shared dimension; templates given as Axes / Dataset
    for k0, k1 in ((1, 2), (2, 1), (1, 1)):
        add('like-single-%d%d' % (k0, k1), 'reindex_like', cost=2, lk0='i', lk1='i', k0=k0, k1=k1)
    for via in ('axes', 'dataset'):
        add('like-via-%s' % via, 'reindex_like', cost=3, lk0='i', lk1='U', k0=1, k1=2, via=via)
    return ts
