"""C03 - assignment writes exactly the addressed cells."""
import itertools
from vlib.ctx import Ref, same
from props.C01 import build, find, make_index, DIMS

EXPLANATION = ("a[idx] = v / put / .ix[idx] = v / N-d boolean masks through the real _setitem, _get_indices, _setvalues_ortho, "
               "_setvalues_bool, orthogonal_indexer and _maybe_cast_type with symbolic labels, index values, old cells and assigned "
               "cells; oracle: exactly the cells the same index reads are set to the broadcast right-hand side, everything else untouched")
ASSUMPTIONS = ["labels on an axis are pairwise distinct", "with an array right-hand side the positions addressed by a list index are distinct (NumPy leaves the winner of a repeated position unspecified)"]
BOUNDS = {'quick': {'nd': '1..3', 'n': '1..3'}, 'thorough': {'nd': '1..3', 'n': '1..4'}}
DEADLINE = {'quick': 120, 'thorough': 1200}


def _cellval(ctx, vkind, name):
    if vkind == 'f':
        return ctx.real(name)
    if vkind == 'i':
        return ctx.int(name)
    if vkind == 'b':
        return ctx.bool(name)
    if vkind == 'U':
        return ctx.rank(name)
    if vkind == 'nan':
        return float('nan')
    raise ValueError(vkind)


def assign_nd(ctx, shape, lkinds, kinds, rhs='scalar', via='setitem', inplace=True, cast=False, dkind='f', vkind='f', position=False, order=None, layout=None, prime=False, frozen=False):
    if frozen:
        # the array is created while indexing.by = 'position' is in force (that mode stays with the array), the option is then reset:
        # default-mode calls on it mean positions, for in-place and for copy-returning assignments alike
        ctx.da.set_option('indexing.by', 'position')
    try:
        a, ref, dims, labels = build(ctx, shape, lkinds, dkind, order=order, layout=layout, prime=prime)
    finally:
        if frozen:
            ctx.da.set_option('indexing.by', 'label')
    attrs = {'units': 'm', 'hist': [1, 2]}
    a.attrs.update(attrs)
    idx = []
    sel = []
    for d, kind, l, lk in zip(dims, kinds, labels, lkinds):
        if position:
            n = len(l)
            if kind == 'scalar':
                i = ctx.choice('p%s' % d, n)
                idx.append(i); sel.append(i)
            elif kind == 'list2':
                i0, i1 = ctx.choice('p%s0' % d, n), ctx.choice('p%s1' % d, n)
                idx.append([i0, i1]); sel.append([i0, i1])
            elif kind == 'neg-run':          # a run of consecutive negative positions
                idx.append([-2, -1]); sel.append([n - 2, n - 1])
            elif kind == 'neg-wrap':         # consecutive integers that wrap around the end of the axis
                idx.append([-1, 0]); sel.append([n - 1, 0])
            elif kind == 'slice':
                idx.append(slice(0, n - 1)); sel.append(list(range(0, n - 1)))
            elif kind == 'mask':
                bits = [bool(ctx.bool('m%s_%d' % (d, j))) for j in range(n)]
                idx.append(ctx.nparray(bits, kind='b')); sel.append([j for j, b in enumerate(bits) if b])
            else:
                idx.append(slice(None)); sel.append(list(range(n)))
        else:
            if kind == 'slice':   # inclusive label slice between two existing labels of an int axis kept sorted
                i, s = slice(l[0], l[-1]), None
                s = 'slice'
            else:
                i, s = make_index(ctx, d, kind, l, lk)
            idx.append(i)
            sel.append(s)
    # resolve label slices through the read path of the same array (C02 decides what a slice reads)
    for j, s in enumerate(sel):
        if s == 'slice':
            sub = a.axes[j].loc(idx[j])
            sel[j] = list(range(len(labels[j])))[sub]
    absent = any(s is None for s in sel)
    lists = [([s] if isinstance(s, int) else s) for s in sel] if not absent else None
    # right-hand side
    if not absent:
        selshape = [len(s) for s in sel if not isinstance(s, int)]
        if rhs == 'array':
            for s in sel:
                if isinstance(s, list) and len(s) > 1:
                    for x, y in itertools.combinations(range(len(s)), 2):
                        ctx.assume(s[x] != s[y])
    else:
        selshape = []
    if rhs == 'scalar' or absent:
        v = _cellval(ctx, vkind, 'rhs')
        value = v
        bvals = None
    else:
        vshape = selshape if rhs == 'array' else selshape[-1:]
        n = 1
        for m in vshape:
            n *= m
        vs = [_cellval(ctx, vkind, 'rhs%d' % j) for j in range(n)]
        value = ctx.nparray(vs, vshape, kind=vkind if vkind != 'nan' else 'f')
        bvals = (vs, vshape)
    tup = tuple(idx)
    key = tup if len(tup) != 1 else tup[0]
    kw = {}
    if cast:
        kw['cast'] = True
    holder = {}
    if via == 'setitem':
        def f():
            if position and not frozen:
                a.ix[key] = value
            else:
                a[key] = value
            return a
        inplace = True
    elif via == 'loc':
        def f():
            a.loc[key] = value
            return a
        inplace = True
    elif via in ('putdict', 'putdict-intkeys', 'setitem-dict'):
        # the index is a {dimension: index} mapping held in one object that is used again for the read-back
        d_ = dict(((d if via != 'putdict-intkeys' else dims.index(d)), i) for d, i, k in zip(dims, idx, kinds) if k != 'full')
        if via == 'setitem-dict':
            def f():
                if position:
                    a.ix[d_] = value
                else:
                    a[d_] = value
                return a
            inplace = True
        else:
            f = lambda: a.put(d_, value, inplace=inplace, indexing='position' if position else None, **kw)
    elif via in ('put-axis-name', 'put-axis-pos', 'put-axis-neg'):
        # one indexed dimension, designated through axis= by name, position or negative position
        nf = [(j, i) for j, (i, k) in enumerate(zip(idx, kinds)) if k != 'full']
        assert len(nf) == 1
        j, i1 = nf[0]
        axarg = {'put-axis-name': dims[j], 'put-axis-pos': j, 'put-axis-neg': j - len(dims)}[via]
        f = lambda: a.put(i1, value, axis=axarg, inplace=inplace, indexing='position' if position else None, **kw)
    else:
        f = lambda: a.put(key, value, inplace=inplace, indexing='position' if (position and not frozen) else None, **kw)
    r = ctx.call(f)
    if absent:
        ok = ctx.AND(r == ('exc', 'IndexError'), same(ctx, a, ref, attrs=attrs))
        return ctx.done(ok, [r[1] if r[0] != 'ok' else None, ctx.observe(a)], inplace=True)
    if r[0] != 'ok':
        return ctx.done(False, r[1])
    res = a if inplace else r[1]
    # expected cells
    exp = list(ref.cells)
    selpos = list(itertools.product(*lists))
    if bvals is None:
        for p in selpos:
            exp[_off(p, shape)] = value
    else:
        vs, vshape = bvals
        keepdims = [j for j, s in enumerate(sel) if not isinstance(s, int)]
        for p_idx in itertools.product(*[range(len(l)) for l in lists]):
            p = tuple(lists[j][p_idx[j]] for j in range(len(lists)))
            vi = [p_idx[j] for j in keepdims]
            vi = vi[len(vi) - len(vshape):]
            exp[_off(p, shape)] = vs[_off(vi, vshape)] if vshape else vs[0]
    oks = [same(ctx, res, Ref(dims, labels, exp), attrs=attrs)]
    if not inplace:
        oks.append(same(ctx, a, ref, attrs=attrs))
        oks.append(res is not a)
    elif via.startswith('put'):
        oks.append(r[1] is None)
    # reading back the same index returns what was written
    if via in ('putdict', 'putdict-intkeys', 'setitem-dict'):
        rb = ctx.call(lambda: res.take(d_, indexing='position' if position else 'label'))
    else:
        rb = ctx.call(lambda: (res.ix[key] if (position and not frozen) else res[key]))
    if rb[0] != 'ok':
        oks.append(False)
    else:
        oks.append(same(ctx, rb[1], Ref(dims, labels, exp).select(sel)))
    return ctx.done(ctx.AND(*oks), [ctx.observe(res), ctx.observe(a)], inplace=True)


def _off(pos, shape):
    off = 0
    for p, n in zip(pos, shape):
        off = off * n + p
    return off


def assign_mask_nd(ctx, shape, rhs, via, inplace, dkind='f', vkind='f', cast=False, maskform='array', layout=None):
    """full N-d boolean mask"""
    a, ref, dims, labels = build(ctx, shape, ['i'] * len(shape), dkind, layout=layout)
    n = len(ref.cells)
    bits = [bool(ctx.bool('m%d' % j)) for j in range(n)]
    cnt = sum(bits)
    if maskform == 'dimarray':
        mask = ctx.mk(dims, labels, bits, kind='b')
    elif maskform == 'compare':
        t = ctx.real('thr')
        mask = a > t
        bits = [bool(c > t) for c in ref.cells]
        cnt = sum(bits)
    else:
        mask = ctx.nparray(bits, shape, kind='b')
    if rhs == 'scalar':
        v = _cellval(ctx, vkind, 'rhs')
        value = v
        vs = [v] * cnt
    else:
        vs = [_cellval(ctx, vkind, 'rhs%d' % j) for j in range(cnt)]
        value = ctx.nparray(vs, kind=vkind)
    kw = {'cast': True} if cast else {}
    if via == 'setitem':
        def f():
            a[mask] = value
            return a
        inplace = True
    else:
        f = lambda: a.put(mask, value, inplace=inplace, **kw)
    r = ctx.call(f)
    if r[0] != 'ok':
        return ctx.done(False, r[1])
    res = a if inplace else r[1]
    exp = list(ref.cells)
    it = iter(vs)
    for j, b in enumerate(bits):
        if b:
            exp[j] = next(it)
    oks = [same(ctx, res, Ref(dims, labels, exp))]
    if not inplace:
        oks.append(same(ctx, a, ref))
    return ctx.done(ctx.AND(*oks), [ctx.observe(res), ctx.observe(a)], inplace=True)


def assign_tol(ctx, n, form, via, lkind='f', inplace=True):
    """assignment through a nearest-neighbour lookup (nloc / tol=): exactly the cell of the nearest label is written, and only when it
    lies within the tolerance"""
    labels = ctx.labels(lkind, n, 'l')
    cells = ctx.cells('f', 2 * n, 'v')
    a = ctx.mk(['x', 'y'], [labels, ['p', 'q']], cells, lkinds=[lkind, 'U'])
    ref = Ref(['x', 'y'], [labels, ['p', 'q']], cells)
    nq = 1 if form == 'scalar' else 2
    qs = [ctx.real('q%d' % j) for j in range(nq)]
    tol = None
    if via != 'nloc':
        tol = ctx.real('tol')
        ctx.assume(tol >= 0)
    v = ctx.real('rhs')

    def dist(l, q):
        d = l - q
        return ctx.symx.ite(d >= 0, d, -d) if ctx.sym else abs(d)
    hits = []
    for q in qs:
        ds = [dist(l, q) for l in labels]
        # the nearest label must be unique for the oracle to be definite
        best = None
        for i in range(n):
            if ctx.AND(*[ds[i] < ds[k] for k in range(n) if k != i]):
                best = i
        if best is None:
            ctx.assume(False)
        hits.append(best if (tol is None or not bool(ds[best] > tol)) else None)
    if len(hits) == 2 and hits[0] is not None and hits[0] == hits[1]:
        pass
    idx = qs[0] if form == 'scalar' else list(qs)
    if via == 'nloc':
        def f():
            a.nloc[idx] = v
            return a
        inplace = True
    elif via == 'put-tol':
        f = lambda: a.put(idx, v, tol=tol, axis='x', inplace=inplace)
    else:
        f = lambda: a.put({'x': idx}, v, tol=tol, inplace=inplace)
    r = ctx.call(f)
    if any(h is None for h in hits):
        ok = ctx.AND(r == ('exc', 'IndexError'), same(ctx, a, ref))
        return ctx.done(ok, [r[1] if r[0] != 'ok' else None, ctx.observe(a)], inplace=True)
    if r[0] != 'ok':
        return ctx.done(False, r[1])
    res = a if inplace else r[1]
    exp = list(cells)
    for h in hits:
        exp[2 * h] = v
        exp[2 * h + 1] = v
    oks = [same(ctx, res, Ref(['x', 'y'], [labels, ['p', 'q']], exp))]
    if not inplace:
        oks.append(same(ctx, a, ref))
    return ctx.done(ctx.AND(*oks), [ctx.observe(res)], inplace=True)


def mixed_list_rhs(ctx, via, inplace):
    """an object array assigned a plain Python list mixing a number and a string: reading back returns the very items"""
    labels = ctx.labels('U', 3, 'l')
    cells = [ctx.real('v0'), ctx.rank('v1'), ctx.int('v2')]
    a = ctx.mk(['x'], [labels], cells, lkinds=['U'], kind='O')
    num = ctx.int('n')
    txt = ctx.rank('t')
    rhs = [num, txt]
    idx = [labels[0], labels[2]]
    if via == 'setitem':
        def f():
            a[idx] = rhs
            return a
        inplace = True
    else:
        f = lambda: a.put(idx, rhs, inplace=inplace)
    r = ctx.call(f)
    if r[0] != 'ok':
        return ctx.done(False, r[1])
    res = a if inplace else r[1]
    exp = [num, cells[1], txt]
    got = res.values.tolist()
    oks = [len(got) == 3, ctx.eq(got[0], num), ctx.eq(got[1], cells[1]), ctx.eq(got[2], txt), type(got[0]) is not str if not ctx.sym else True]
    if not inplace:
        oks.append(same(ctx, a, Ref(['x'], [labels], cells)))
    return ctx.done(ctx.AND(*oks), ctx.observe(res), inplace=True)


def cast_pairs(ctx, akind, vkind, cast, via, inplace=True, rhs='scalar'):
    """(array dtype kind, assigned kind) pairs: with cast=True nothing is truncated or lost"""
    n = 3
    labels = ctx.labels('i', n, 'l')
    if akind == 'O':
        cells = [ctx.real('v0'), ctx.rank('v1'), ctx.int('v2')]
    else:
        cells = ctx.cells(akind, n, 'v')
    a = ctx.mk(['x'], [labels], cells, kind=akind)
    i = ctx.choice('p', n)
    v = _cellval(ctx, vkind, 'rhs')
    kw = {'cast': True} if cast else {}
    if via == 'put':
        f = lambda: a.put(labels[i], v, inplace=inplace, **kw)
    elif via == 'putlist':
        j = ctx.choice('p2', n)
        f = lambda: a.put([labels[i], labels[j]], v, inplace=inplace, **kw)
    elif via == 'putmask':
        bits = [k == i for k in range(n)]
        f = lambda: a.put(ctx.nparray(bits, kind='b'), v, inplace=inplace, **kw)
    else:
        def f():
            a[labels[i]] = v
            return a
        inplace = True
    r = ctx.call(f)
    if r[0] != 'ok':
        # without cast numpy may refuse (str into a float array): allowed, but then nothing may have changed
        if not cast and r[1] in ('ValueError', 'TypeError'):
            return ctx.done(same(ctx, a, Ref(['x'], [labels], cells)), [r[1], ctx.observe(a)], inplace=True)
        return ctx.done(False, r[1])
    res = a if inplace else r[1]
    exp = list(cells)
    exp[i] = v
    if via == 'putlist':
        exp[j] = v
    if not cast and not _value_preserving(akind, vkind):
        # truncating assignment without cast=True is numpy's business: only the other cells are claimed
        got = res.values.tolist()
        oks = [ctx.eq(got[k], exp[k]) for k in range(n) if k != i and not (via == 'putlist' and k == j)]
        oks.append(ctx.eqlist(res.axes[0].values.tolist(), labels))
        return ctx.done(ctx.AND(*oks), ctx.observe(res), inplace=True)
    oks = [same(ctx, res, Ref(['x'], [labels], exp))]
    if not inplace:
        oks.append(same(ctx, a, Ref(['x'], [labels], cells), check_kind=akind))
    return ctx.done(ctx.AND(*oks), [ctx.observe(res), ctx.observe(a)], inplace=True)


def put_broadcast(ctx, akind, vkind, cast, inplace, form):
    """put(..., broadcast=True): NumPy's own fancy-index assignment on the looked-up positions (index arrays paired, not crossed)"""
    shape = [2, 3]
    a, ref, dims, labels = build(ctx, shape, ['i', 'U'], akind)
    k = 2
    p0 = [ctx.choice('p0_%d' % j, 2) for j in range(k)]
    p1 = [ctx.choice('p1_%d' % j, 3) for j in range(k)]
    for x in range(k):
        for y in range(x + 1, k):
            ctx.assume(ctx.NOT(ctx.AND(p0[x] == p0[y], p1[x] == p1[y])))
    if form == 'labels':
        idx = ([labels[0][i] for i in p0], [labels[1][j] for j in p1])
        kw = {}
    else:
        idx = (list(p0), list(p1))
        kw = {'indexing': 'position'}
    vs = [_cellval(ctx, vkind, 'rhs%d' % j) for j in range(k)]
    value = ctx.nparray(vs, kind=vkind if vkind != 'nan' else 'f')
    if cast:
        kw['cast'] = True
    r = ctx.call(lambda: a.put(idx, value, broadcast=True, inplace=inplace, **kw))
    if r[0] != 'ok':
        return ctx.done(False, r[1], inplace=True)
    res = a if inplace else r[1]
    exp = list(ref.cells)
    for i, j, v in zip(p0, p1, vs):
        exp[i * 3 + j] = v
    oks = [same(ctx, res, Ref(dims, labels, exp))]
    if not inplace:
        oks.append(same(ctx, a, ref, check_kind=akind))
    # reading back through the same (paired) index returns what was written
    rkw = {'indexing': 'position'} if form != 'labels' else {}
    rb = ctx.call(lambda: res.take(idx, broadcast=True, **rkw))
    if rb[0] != 'ok' or not hasattr(rb[1], 'values'):
        oks.append(False)
    else:
        oks.append(ctx.eqlist(ctx.flat(rb[1].values.tolist()), vs))
    return ctx.done(ctx.AND(*oks), [ctx.observe(res), ctx.observe(a)], inplace=True)


def width(ctx, fillkind, via):
    """decided by its real-stack replay (dtype widths are not modelled): cast=True with a narrow-float value widens to a float that
    still holds every other cell exactly"""
    np = ctx.np
    big = [16777217, 16777219, 33554433, 5]
    a = ctx.mk(['x'], [[1, 2, 3, 4]], big, lkinds=['i'], kind='i')
    v = {'float32': np.float32, 'float16': np.float16}[fillkind](0.5)
    if via == 'put':
        r = ctx.call(lambda: a.put(4, v, cast=True, inplace=False))
    elif via == 'putmask':
        r = ctx.call(lambda: a.put(np.array([False, False, False, True]), v, cast=True, inplace=False))
    else:
        r = ctx.call(lambda: a.setna(5))
    if r[0] != 'ok':
        return ctx.done(False, r[1])
    got = r[1].values.tolist()
    ok = ctx.AND(got[0] == 16777217, got[1] == 16777219, got[2] == 33554433, (got[3] == 0.5) if via != 'setna' else ctx.isnan(got[3]))
    return ctx.done(ok, ctx.observe(r[1]))


def _value_preserving(akind, vkind):
    if akind == 'O' or akind == vkind:
        return True
    return (akind, vkind) in (('f', 'i'),)


def values_setter(ctx, dkind, vkind, form='full'):
    """a.values = new : whole-array replacement (or a broadcast scalar / row) widens like cast=True and keeps the shape"""
    a, ref, dims, labels = build(ctx, [2, 2], ['i', 'U'], dkind)
    if form == 'full':
        vs = [_cellval(ctx, vkind, 'n%d' % j) for j in range(4)]
        new = ctx.nparray(vs, [2, 2], kind=vkind)
    elif form == 'scalar':
        v = _cellval(ctx, vkind, 'n0')
        vs = [v] * 4
        new = v
    else:
        row = [_cellval(ctx, vkind, 'n%d' % j) for j in range(2)]
        vs = row + row
        new = ctx.nparray(row, kind=vkind) if form == 'row' else list(row)

    def f():
        a.values = new
        return a
    r = ctx.call(f)
    if r[0] != 'ok':
        return ctx.done(False, r[1])
    return ctx.done(same(ctx, a, Ref(dims, labels, vs)), ctx.observe(a), inplace=True)


def templates():
    ts = []

    def add(name, fn, tier='quick', cost=1.0, **params):
        ts.append({'name': name, 'fn': fn, 'params': params, 'tier': tier, 'cost': cost})
    # 1-D, every index kind and rhs form
    for lk in 'iU':
        for kind in ('scalar', 'list1', 'list2', 'mask', 'full', 'slice'):
            if kind == 'slice' and lk == 'U':
                continue
            for rhs in ('scalar', 'array'):
                if kind == 'scalar' and rhs == 'array':
                    continue
                for via, inplace in (('setitem', True), ('put', True), ('put', False)):
                    add('1d-%s-%s-%s-%s-%s' % (lk, kind, rhs, via, inplace), 'assign_nd', cost=1.5, shape=[3], lkinds=[lk], kinds=[kind], rhs=rhs, via=via, inplace=inplace)
    # 2-D / 3-D combos
    combos2 = [('scalar', 'full'), ('full', 'scalar'), ('list2', 'full'), ('full', 'list2'), ('scalar', 'list2'), ('list2', 'scalar'),
               ('list2', 'mask'), ('mask', 'list2'), ('mask', 'mask'), ('list2', 'list2'), ('present', 'mask'), ('slice', 'list2')]
    for kinds in combos2:
        for rhs in ('scalar', 'array', 'sub'):
            if rhs != 'scalar' and all(k in ('scalar', 'present') for k in kinds):
                continue
            quick = rhs != 'sub' or kinds in (('list2', 'full'), ('full', 'list2'), ('mask', 'mask'))
            add('2d-%s-%s-%s' % (kinds[0], kinds[1], rhs), 'assign_nd', 'quick' if quick else 'thorough', cost=4, shape=[2, 3] if kinds[1] != 'scalar' else [3, 2],
                lkinds=['i', 'U'] if kinds[0] != 'slice' else ['i', 'i'], kinds=list(kinds), rhs=rhs)
    combos3 = [('present', 'full', 'list2'), ('list2', 'full', 'present'), ('full', 'present', 'list2'), ('present', 'list2', 'full'), ('list2', 'present', 'full'),
               ('present', 'full', 'mask'), ('mask', 'full', 'present'), ('list2', 'full', 'list2'), ('present', 'mask', 'list2'), ('list2', 'list2', 'full'),
               ('full', 'full', 'list2'), ('present', 'present', 'list2')]
    for kinds in combos3:
        for rhs in ('scalar', 'array'):
            for shape in ([2, 2, 2], [2, 3, 2]):
                quick = shape == [2, 2, 2] or rhs == 'array'
                add('3d-%s-%s-%s' % ('-'.join(kinds), rhs, 'x'.join(map(str, shape))), 'assign_nd', 'quick' if quick else 'thorough', cost=6,
                    shape=shape, lkinds=['i', 'U', 'f'], kinds=list(kinds), rhs=rhs)
    # unequal sizes, slice next to a list / scalar in every arrangement (axes kept increasing: lookup order is C01's business)
    import itertools as _it
    for kinds in sorted(set(_it.permutations(['slice', 'list2', 'full'])) | set(_it.permutations(['slice', 'list2', 'present']))):
        for rhs in ('scalar', 'array'):
            add('3d-uneq-%s-%s' % ('-'.join(kinds), rhs), 'assign_nd', cost=4, shape=[2, 3, 4], lkinds=['i', 'i', 'i'], kinds=list(kinds), rhs=rhs, order='inc')
    for kinds in (('slice', 'list2', 'full'), ('full', 'slice', 'list2')):
        add('3d-uneq-pos-%s' % '-'.join(kinds), 'assign_nd', cost=4, shape=[2, 3, 4], lkinds=['i', 'i', 'i'], kinds=list(kinds), rhs='array', position=True, via='put', inplace=False, order='inc')
    # spellings
    for via in ('loc', 'putdict', 'put'):
        for inplace in (True, False):
            add('via-%s-%s' % (via, inplace), 'assign_nd', cost=3, shape=[2, 3], lkinds=['i', 'U'], kinds=['full', 'list2'], rhs='array', via=via, inplace=inplace)
    # the {dimension: index} mapping is one object, used for the write and again for the read-back
    for via in ('putdict', 'putdict-intkeys', 'setitem-dict'):
        for kinds in (('full', 'list2'), ('scalar', 'mask'), ('list2', 'scalar')):
            for position in (False, True):
                if position and 'mask' in kinds:
                    continue
                add('dict-%s-%s-%s-%s' % (via, kinds[0], kinds[1], 'pos' if position else 'label'), 'assign_nd', cost=3, shape=[2, 3], lkinds=['i', 'U'], kinds=list(kinds),
                    rhs='scalar', via=via, inplace=(via == 'setitem-dict' or position), position=position)
    add('dict-3d-putdict', 'assign_nd', cost=4, shape=[2, 2, 2], lkinds=['i', 'U', 'f'], kinds=['present', 'full', 'list2'], rhs='array', via='putdict', inplace=False)
    # memory layout of the value buffer (column-major, strided view): same cells written, same copy semantics
    for layout in ('F', 'strided'):
        for via, inplace in (('setitem', True), ('put', True), ('put', False), ('loc', True)):
            add('layout-%s-2d-%s-%s' % (layout, via, inplace), 'assign_nd', cost=3, shape=[2, 3], lkinds=['i', 'U'], kinds=['scalar', 'list2'], rhs='array', via=via, inplace=inplace, layout=layout)
        add('layout-%s-1d' % layout, 'assign_nd', cost=1.5, shape=[3], lkinds=['i'], kinds=['list2'], rhs='scalar', layout=layout)
        add('layout-%s-pos' % layout, 'assign_nd', cost=2, shape=[3, 2], lkinds=['U', 'i'], kinds=['slice', 'scalar'], rhs='scalar', position=True, layout=layout)
        add('layout-%s-cast' % layout, 'assign_nd', cost=3, shape=[2, 2], lkinds=['i', 'i'], kinds=['scalar', 'full'], rhs='scalar', via='put', inplace=True, cast=True, dkind='i', vkind='f', layout=layout)
        for via, inplace in (('setitem', True), ('put', False)):
            add('layout-%s-mask-%s' % (layout, via), 'assign_mask_nd', cost=2, shape=[2, 2], rhs='scalar', via=via, inplace=inplace, layout=layout)
    # operands whose axes have answered is_monotonic() before (cached state must not matter), every label order
    for lk, order in (('i', 'dec'), ('f', 'dec'), ('i', 'inc'), ('i', None), ('U', None)):
        for kind in ('scalar', 'list2', 'slice'):
            if kind == 'slice' and (lk == 'U' or order is None):
                continue
            for via, inplace in (('setitem', True), ('put', False)):
                add('primed-%s-%s-%s-%s' % (lk, order, kind, via), 'assign_nd', cost=2, shape=[3], lkinds=[lk], kinds=[kind], rhs='scalar', via=via, inplace=inplace, order=order, prime=True)
    add('primed-2d', 'assign_nd', cost=4, shape=[3, 2], lkinds=['f', 'U'], kinds=['scalar', 'list2'], rhs='array', order='dec', prime=True)
    # the indexed dimension designated through axis= (name, position, negative position)
    for via in ('put-axis-name', 'put-axis-pos', 'put-axis-neg'):
        for j in (0, 1):
            for kind in ('scalar', 'list2', 'mask'):
                for position in (False, True):
                    if position and kind == 'mask' and j == 0:
                        continue
                    kinds = ['full', 'full']
                    kinds[j] = kind
                    add('%s-dim%d-%s-%s' % (via, j, kind, 'pos' if position else 'label'), 'assign_nd', cost=2, shape=[3, 3], lkinds=['i', 'i'], kinds=kinds, rhs='scalar', via=via,
                        inplace=(kind != 'list2'), position=position)
    # assignment through nearest-neighbour lookups
    for via in ('nloc', 'put-tol', 'putdict-tol'):
        for form in ('scalar', 'list'):
            for n in (2, 3):
                add('tol-%s-%s-n%d' % (via, form, n), 'assign_tol', 'quick' if n == 2 or form == 'scalar' else 'thorough', cost=3 if form == 'scalar' else 12, n=n, form=form, via=via)
    add('tol-int-axis', 'assign_tol', cost=3, n=2, form='scalar', via='put-tol', lkind='i')
    add('tol-notinplace', 'assign_tol', cost=3, n=2, form='scalar', via='put-tol', inplace=False)
    # arrays created under indexing.by = 'position' (the mode stays with the array after the option is reset)
    for kinds in (('scalar',), ('list2',), ('slice',)):
        for via, inplace in (('setitem', True), ('put', True), ('put', False)):
            add('frozen-position-1d-%s-%s-%s' % (kinds[0], via, inplace), 'assign_nd', cost=2, shape=[3], lkinds=['i'], kinds=list(kinds), rhs='scalar', position=True, frozen=True, via=via, inplace=inplace)
    add('frozen-position-2d', 'assign_nd', cost=3, shape=[3, 2], lkinds=['i', 'i'], kinds=['scalar', 'list2'], rhs='array', position=True, frozen=True, via='put', inplace=False)
    # right-hand sides given as plain Python lists that mix strings and numbers (object arrays keep each item's own type)
    for via, inplace in (('setitem', True), ('put', False)):
        add('mixed-list-rhs-%s' % via, 'mixed_list_rhs', cost=1, via=via, inplace=inplace)
    # positional
    for kinds in (('neg-run',), ('neg-wrap',)):
        for via, inplace in (('setitem', True), ('put', False)):
            add('pos-1d-%s-%s' % (kinds[0], via), 'assign_nd', cost=1, shape=[3], lkinds=['U'], kinds=list(kinds), rhs='scalar', position=True, via=via, inplace=inplace)
        add('pos-2d-%s' % kinds[0], 'assign_nd', cost=2, shape=[2, 3], lkinds=['U', 'i'], kinds=['full', kinds[0]], rhs='array', position=True)
    for kinds in (('scalar',), ('list2',), ('mask',), ('slice',)):
        add('pos-1d-%s' % kinds[0], 'assign_nd', cost=2, shape=[3], lkinds=['U'], kinds=list(kinds), rhs='scalar', position=True)
    for kinds in (('scalar', 'list2'), ('list2', 'full'), ('slice', 'scalar'), ('mask', 'list2'), ('list2', 'list2')):
        for rhs in ('scalar', 'array'):
            if rhs == 'array' and kinds == ('slice', 'scalar'):
                pass
            add('pos-2d-%s-%s-%s' % (kinds[0], kinds[1], rhs), 'assign_nd', cost=3, shape=[3, 2], lkinds=['U', 'i'], kinds=list(kinds), rhs=rhs, position=True)
    add('pos-3d-put', 'assign_nd', cost=4, shape=[2, 2, 2], lkinds=['U', 'i', 'f'], kinds=['scalar', 'full', 'list2'], rhs='array', position=True, via='put', inplace=False)
    # full N-d masks
    for shape in ([2, 2], [2, 3], [2, 2, 2]):
        for rhs in ('scalar', 'array'):
            for via, inplace in (('setitem', True), ('put', False), ('put', True)):
                quick = len(shape) == 2 or (rhs == 'scalar' and via == 'setitem')
                add('mask-nd-%s-%s-%s-%s' % ('x'.join(map(str, shape)), rhs, via, inplace), 'assign_mask_nd', 'quick' if quick else 'thorough',
                    cost=2 ** (shape[0] * shape[1] * (shape[2] if len(shape) > 2 else 1)) / 16.0, shape=shape, rhs=rhs, via=via, inplace=inplace)
    add('mask-nd-dimarray', 'assign_mask_nd', cost=2, shape=[2, 2], rhs='scalar', via='setitem', inplace=True, maskform='dimarray')
    add('mask-nd-compare', 'assign_mask_nd', cost=2, shape=[2, 2], rhs='scalar', via='setitem', inplace=True, maskform='compare')
    add('mask-nd-cast-int-nan', 'assign_mask_nd', cost=2, shape=[2, 2], rhs='scalar', via='put', inplace=False, dkind='i', vkind='nan', cast=True)
    add('mask-nd-cast-int-float', 'assign_mask_nd', cost=2, shape=[2, 2], rhs='array', via='put', inplace=True, dkind='i', vkind='f', cast=True)
    # dtype kind pairs
    for ak in 'bifO':
        for vk in ('b', 'i', 'f', 'U', 'nan'):
            for cast in (True, False):
                if not cast and not _value_preserving(ak, vk if vk != 'nan' else 'f') and vk in ('U',) and ak != 'O':
                    pass
                for via in ('put', 'setitem', 'putlist', 'putmask'):
                    if via == 'setitem' and cast:
                        continue
                    add('cast-%s-%s-%s-%s' % (ak, vk, cast, via), 'cast_pairs', cost=0.3, akind=ak, vkind=vk, cast=cast, via=via)
            add('cast-%s-%s-notinplace' % (ak, vk), 'cast_pairs', cost=0.3, akind=ak, vkind=vk, cast=True, via='put', inplace=False)
    for fk in ('float32', 'float16'):
        for via in ('put', 'putmask'):
            add('width-%s-%s' % (fk, via), 'width', cost=0.1, fillkind=fk, via=via)
    for dk, vk in (('i', 'f'), ('f', 'i'), ('i', 'U'), ('f', 'f')):
        add('values-setter-%s-%s' % (dk, vk), 'values_setter', cost=0.3, dkind=dk, vkind=vk)
        for form in ('scalar', 'row', 'rowlist'):
            add('values-setter-%s-%s-%s' % (dk, vk, form), 'values_setter', cost=0.3, dkind=dk, vkind=vk, form=form)
    add('values-setter-i-nan-scalar', 'values_setter', cost=0.3, dkind='i', vkind='nan', form='scalar')
    for ak, vk in (('f', 'f'), ('i', 'f'), ('i', 'i'), ('f', 'i'), ('i', 'U'), ('b', 'i'), ('i', 'nan')):
        for cast in (True, False):
            if not cast and not _value_preserving(ak, vk if vk != 'nan' else 'f'):
                continue
            for inplace in (True, False):
                for form in ('labels', 'positions'):
                    add('put-broadcast-%s-%s-%s-%s-%s' % (ak, vk, cast, inplace, form), 'put_broadcast', cost=1, akind=ak, vkind=vk, cast=cast, inplace=inplace, form=form)
    return ts
