"""C08 - reductions equal NumPy's along the named axis and drop only that axis."""
import itertools
from vlib.ctx import Ref, same
from props.C01 import DIMS

EXPLANATION = ("a.f(axis=..., skipna=...) for sum/prod/mean/var/std/min/max/ptp/all/any/median and percentile through the real "
               "_NumpyDesc / apply_along_axis / _deal_with_axis / _get_func / _MaskedArrayFunc / _median_with_nan / flatten (tuple axis) "
               "with symbolic data and symbolic NaN pattern; oracle: every output cell == the NumPy kernel applied to the 1-D fibre the "
               "statement designates (non-NaN cells under skipna), result labelled with the remaining axes in original order, attrs kept")
ASSUMPTIONS = ["finite data cells are exact reals; median / var / std / percentile are symmetric uninterpreted kernels (same kernel term on both sides)",
               "under skipna=True nothing is claimed for an all-NaN fibre of ptp / all / any (statement silent)"]
BOUNDS = {'quick': {'nd': '1..3', 'sizes': '1..3', 'symbolic NaN bits': 'up to 6 cells'}, 'thorough': {'nd': '1..4', 'sizes': '1..3', 'symbolic NaN bits': 'up to 8 cells'}}
DEADLINE = {'quick': 120, 'thorough': 1200}
FUNCS = ['sum', 'prod', 'mean', 'var', 'std', 'min', 'max', 'ptp', 'all', 'any', 'median']


def kernel(ctx, func, fibre, skipna):
    """NumPy's f on one fibre (1-D), as the statement defines it"""
    np = ctx.np
    hasnan = any(ctx.isnan(c) for c in fibre)
    if skipna:
        cells = [c for c in fibre if not ctx.isnan(c)]
        if not cells:
            if func in ('sum',):
                return 0.0
            if func == 'prod':
                return 1.0
            if func in ('ptp', 'all', 'any'):
                return 'any'
            return float('nan')
    else:
        cells = list(fibre)
        if hasnan and func not in ('all', 'any'):
            return float('nan')
    arr = ctx.nparray(cells)
    return ctx.scalar(getattr(np, func)(arr))


def reduce_(ctx, shape, func, axis, skipna=False, dkind='f', nan='sym', q=None, lkinds=None, warm=False, dimnames=None, again=False):
    nd = len(shape)
    dims = list(dimnames) if dimnames else DIMS[:nd]
    lkinds = lkinds or ['i', 'U', 'f', 'i'][:nd]
    labels = [ctx.labels(k, n, 'l%s_' % d) for d, n, k in zip(dims, shape, lkinds)]
    ncell = 1
    for n in shape:
        ncell *= n
    cells = ctx.cells(dkind, ncell, 'v', nan=(nan == 'sym' and dkind == 'f'))
    if nan == 'all' and dkind == 'f':
        cells = [float('nan')] * ncell
    attrs = {'units': 'K', 'hist': [1], '_FillValue': -999}      # names starting with an underscore are metadata like any other in the attrs dict
    a = ctx.mk(dims, labels, cells, lkinds=lkinds, kind=dkind, attrs=attrs)
    ref = Ref(dims, labels, cells)
    # axis argument forms: None | name | position | negative position | tuple of names | tuple of positions
    if axis is None:
        rdims = list(dims)
        axarg = None
    elif isinstance(axis, list):
        rdims = [dims[i] for i in axis[1:]] if axis[0] == 'names' else [dims[i] for i in axis[1:]]
        axarg = tuple(rdims) if axis[0] == 'names' else tuple(axis[1:])
        if axis[0] == 'list':
            axarg = list(rdims)
    elif isinstance(axis, str):
        i = int(axis[3:])
        rdims = [dims[i]]
        axarg = dims[i]
    else:
        rdims = [dims[axis]]
        axarg = axis
    kw = {'axis': axarg}
    if skipna:
        kw['skipna'] = True
    if warm:
        # the same reduction has been used before in this process, on data without NaN (results must not depend on that)
        w = ctx.mk(dims, labels, [float(i + 1) for i in range(ncell)], lkinds=lkinds, register=False)
        ctx.call(lambda: getattr(w, func)(**kw))
    if again:
        # the same reduction has been asked of this very array before, and the array has been edited in place since:
        # the answer is about the current values
        ctx.call(lambda: getattr(a, func)(**kw))
        cells = ctx.cells(dkind, ncell, 'w', nan=(nan == 'sym' and dkind == 'f'))
        if again == 'setitem':
            a[...] = ctx.nparray(cells, shape, dkind)
        elif again == 'values':
            a.values[...] = ctx.nparray(cells, shape, dkind)
        else:
            for p, c in zip(itertools.product(*[range(n) for n in shape]), cells):
                a.ix[tuple(p)] = c
        ref = Ref(dims, labels, cells)
        ctx.operands[-1]['cells'] = list(cells)
    if func == 'percentile':
        if isinstance(axis, list) or axis is None:
            raise ValueError("percentile: single axis only")
        r = ctx.call(lambda: ctx.da.percentile(a, q, axis=axarg))
    else:
        r = ctx.call(lambda: getattr(a, func)(**kw))
    if r[0] != 'ok':
        return ctx.done(False, r[1])
    res = r[1]
    keep = [d for d in dims if d not in rdims]
    kshape = [shape[dims.index(d)] for d in keep]
    exp = []
    anyfree = False
    for pos in itertools.product(*[range(n) for n in kshape]):
        fibre = []
        for rp in itertools.product(*[range(shape[dims.index(d)]) for d in rdims]):
            full = [0] * nd
            for d, p in zip(keep, pos):
                full[dims.index(d)] = p
            for d, p in zip(rdims, rp):
                full[dims.index(d)] = p
            fibre.append(ref.at(full))
        if func == 'percentile':
            if any(ctx.isnan(c) for c in fibre):
                exp.append(float('nan'))
            else:
                exp.append(ctx.scalar(ctx.np.percentile(ctx.nparray(fibre), q)))
        else:
            exp.append(kernel(ctx, func, fibre, skipna))
    if not keep:
        # scalar result
        if exp[0] == 'any':
            return ctx.done(True, ctx.observe(res))
        if isinstance(res, ctx.da.DimArray):
            return ctx.done(False, ctx.observe(res))
        v = ctx.scalar(res) if getattr(res, 'ndim', 0) == 0 else None
        if hasattr(v, 'tolist') and not isinstance(v, (int, float, bool)):
            v = v.tolist()
        if exp[0] == 'any':
            return ctx.done(True, ctx.observe(res))
        return ctx.done(ctx.eq(v, exp[0]), ctx.observe(res))
    if not isinstance(res, ctx.da.DimArray):
        return ctx.done(False, ctx.observe(res))
    if tuple(res.dims) != tuple(keep) or tuple(res.values.shape) != tuple(kshape):
        return ctx.done(False, ctx.observe(res))
    oks = []
    for ax, d in zip(res.axes, keep):
        oks.append(ctx.eqlist(ax.values.tolist(), labels[dims.index(d)]))
    got = ctx.flat(res.values.tolist())
    for g, e in zip(got, exp):
        if e == 'any':
            continue
        oks.append(ctx.eq(g, e))
    if func != 'percentile':      # percentile is a library function that does not carry metadata (not claimed)
        oks.append(set(res.attrs.keys()) == set(attrs.keys()))
    return ctx.done(ctx.AND(*oks), ctx.observe(res))


def percentile_list(ctx, shape, axis, qs):
    """list of percentiles: each slice along the new axis equals the scalar-percentile result"""
    nd = len(shape)
    dims = DIMS[:nd]
    labels = [ctx.labels('i', n, 'l%s_' % d) for d, n in zip(dims, shape)]
    ncell = 1
    for n in shape:
        ncell *= n
    cells = ctx.cells('f', ncell, 'v')
    a = ctx.mk(dims, labels, cells)
    r = ctx.call(lambda: ctx.da.percentile(a, qs, axis=dims[axis]))
    if r[0] != 'ok':
        return ctx.done(False, r[1])
    res = r[1]
    keep = [d for d in dims if d != dims[axis]]
    if not isinstance(res, ctx.da.DimArray) or tuple(res.dims[1:]) != tuple(keep) or len(res.dims) != len(keep) + 1:
        return ctx.done(False, ctx.observe(res))
    oks = [ctx.eqlist(res.axes[0].values.tolist(), qs)]
    for k, q in enumerate(qs):
        one = ctx.da.percentile(a, q, axis=dims[axis])
        sl = res.values.tolist()[k]
        oks.append(ctx.eqlist(ctx.flat(sl) if isinstance(sl, list) else [sl], ctx.flat(one.values.tolist()) if hasattr(one, 'values') else [ctx.scalar(one)]))
    return ctx.done(ctx.AND(*oks), ctx.observe(res))


def width(ctx, dt, func, skipna, axis=1):
    """decided by its real-stack replay (dtype widths are not modelled): reductions of narrow-float data (float32 / float16) with
    NaN handle missing values like float64 data do.  The cells are exactly representable and so are all results."""
    np, da = ctx.np, ctx.da
    nan = float('nan')
    rows = [[1.5, nan, 3.25], [2.0, 0.0, 4.0]]
    vals = np.array(rows, dtype=getattr(np, dt))
    a = da.DimArray(vals, axes=[('x', np.array([10, 20])), ('y', np.array([1, 2, 3]))])
    kw = {'axis': ('y' if axis == 1 else 'x')}
    if skipna:
        kw['skipna'] = True
    r = ctx.call(lambda: getattr(a, func)(**kw))
    if r[0] != 'ok':
        return ctx.done(False, r[1])
    fibres = rows if axis == 1 else [[rows[0][j], rows[1][j]] for j in range(3)]

    def k(f):
        has_nan = any(c != c for c in f)
        v = [c for c in f if c == c] if skipna else f
        if func in ('all', 'any'):
            return {'all': all, 'any': any}[func](bool(c) for c in v)
        if has_nan and not skipna:
            return nan
        if func == 'sum':
            return sum(v)
        if func == 'prod':
            p = 1.0
            for c in v:
                p *= c
            return p
        if func == 'mean':
            return sum(v) / len(v)
        if func == 'min':
            return min(v)
        if func == 'max':
            return max(v)
        if func == 'ptp':
            return max(v) - min(v)
        if func == 'median':
            s = sorted(v)
            return s[len(s) // 2] if len(s) % 2 else (s[len(s) // 2 - 1] + s[len(s) // 2]) / 2
        raise ValueError(func)
    exp = [k(f) for f in fibres]
    res = r[1]
    if not isinstance(res, da.DimArray) or tuple(res.dims) != (('x',) if axis == 1 else ('y',)):
        return ctx.done(False, ctx.observe(res))
    got = res.values.tolist()
    ok = len(got) == len(exp) and all((g != g) if (e != e) else (g == e) for g, e in zip(got, exp))
    return ctx.done(ok, ctx.observe(res))


def templates():
    ts = []

    def add(name, fn, tier='quick', cost=1.0, **params):
        ts.append({'name': name, 'fn': fn, 'params': params, 'tier': tier, 'cost': cost})
    shapes2 = [[2, 2], [2, 1], [1, 2], [3, 2], [1, 1]]
    for func in FUNCS:
        for skipna in (False, True):
            # 1-D
            for n in (1, 2, 3):
                for axis in (None, 0, 'pos0'):
                    add('%s-%s-1d-n%d-%s' % (func, skipna, n, axis), 'reduce_', cost=0.1 * 2 ** n, shape=[n], func=func, axis=axis, skipna=skipna)
            # 2-D, symbolic NaN pattern
            for shape in shapes2:
                for axis in (None, 0, 1, 'pos0', 'pos1', -1, ['names', 0, 1], ['names', 1, 0]):
                    nm = axis if not isinstance(axis, list) else 't' + ''.join(map(str, axis[1:]))
                    ncell = shape[0] * shape[1]
                    quick = ncell <= 4 or (axis in (0, 'pos1') and func in ('median', 'sum', 'ptp', 'min'))
                    add('%s-%s-2d-%s-%s' % (func, skipna, 'x'.join(map(str, shape)), nm), 'reduce_', 'quick' if quick else 'thorough', cost=0.02 * 2 ** ncell,
                        shape=shape, func=func, axis=axis, skipna=skipna)
            # 3-D without NaN (all axes, tuple axes in any order)
            for axis in (0, 1, 2, 'pos1', ['names', 0, 2], ['names', 2, 0], ['names', 1, 2], ['names', 2, 1, 0], ['pos', 0, 1], ['list', 2, 0], ['names', 1, 0]):
                nm = axis if not isinstance(axis, list) else axis[0][0] + ''.join(map(str, axis[1:]))
                add('%s-%s-3d-%s' % (func, skipna, nm), 'reduce_', 'quick' if (not skipna or func in ('sum', 'median')) else 'thorough', cost=0.5,
                    shape=[2, 3, 2], func=func, axis=axis, skipna=skipna, nan='none')
            add('%s-%s-3d-allnan' % (func, skipna), 'reduce_', cost=0.3, shape=[2, 1, 2], func=func, axis=2, skipna=skipna, nan='all')
        for skipna in (False, True):
            add('%s-%s-warm' % (func, skipna), 'reduce_', cost=0.5, shape=[2, 2], func=func, axis=0, skipna=skipna, warm=True)
            add('%s-%s-warm-none' % (func, skipna), 'reduce_', cost=0.5, shape=[3], func=func, axis=None, skipna=skipna, warm=True)
        for dk in 'ib':
            if dk == 'b' and func in ('ptp',):
                continue
            add('%s-data-%s' % (func, dk), 'reduce_', cost=0.3, shape=[2, 3], func=func, axis='pos1', dkind=dk)
            add('%s-data-%s-none' % (func, dk), 'reduce_', cost=0.3, shape=[2, 2], func=func, axis=None, dkind=dk)
        add('%s-4d' % func, 'reduce_', 'thorough', cost=3, shape=[2, 2, 2, 2], func=func, axis=['names', 3, 1], nan='none')
        add('%s-4d-small' % func, 'reduce_', cost=1, shape=[2, 1, 2, 2], func=func, axis=['names', 3, 0], nan='none')
    for q in (50, 25.0, 0, 100):
        for shape, axis in (([3], 0), ([2, 2], 'pos0'), ([2, 2], 1), ([3, 1], 0), ([1, 3, 1], 1)):
            add('percentile-%s-%s-%s' % (q, 'x'.join(map(str, shape)), axis), 'reduce_', cost=0.5, shape=shape, func='percentile', axis=axis, q=q)
    # dimension names that are not in alphabetical order, square surviving shapes (a mix-up of the surviving axes keeps the shape)
    for names in (['t', 'y', 'x'], ['time', 'lat', 'lon'], ['c', 'b', 'a']):
        for axis in ('pos0', 0, 'pos1', 2, -1):
            for func in ('percentile', 'mean', 'median', 'max'):
                add('%s-dimnames-%s-%s' % (func, ''.join(n[0] for n in names), axis), 'reduce_', cost=0.5, shape=[2, 2, 2], func=func, axis=axis, q=50 if func == 'percentile' else None,
                    dimnames=names, nan='none')
    # the same reduction twice on one array with an in-place edit in between (single axis, tuples that need / do not need a transposition)
    for func in ('mean', 'sum', 'median', 'max'):
        for axis in (['names', 2, 0], ['names', 0, 1], ['names', 1, 0], 'pos1', None):
            for how in ('setitem', 'values', 'ix'):
                if how != 'setitem' and (func != 'mean'):
                    continue
                nm = axis if not isinstance(axis, list) else 'g' + ''.join(map(str, axis[1:]))
                add('%s-again-%s-%s' % (func, nm, how), 'reduce_', cost=1, shape=[2, 2, 2], func=func, axis=axis, again=how, nan='none')
    # percentiles of integer data are real numbers (NumPy itself refuses bool data)
    for dk in 'i':
        for q in (50, 25.0):
            add('percentile-%s-data-%s' % (q, dk), 'reduce_', cost=0.5, shape=[2, 2], func='percentile', axis=0, q=q, dkind=dk)
            add('percentile-%s-data-%s-3d' % (q, dk), 'reduce_', cost=0.5, shape=[2, 2, 2], func='percentile', axis='pos1', q=q, dkind=dk)
    add('percentile-list', 'percentile_list', cost=1, shape=[3, 2], axis=0, qs=[25, 50])
    add('percentile-list-1', 'percentile_list', cost=1, shape=[2, 3], axis=1, qs=[10.0, 50.0, 90.0])
    for dt in ('float32', 'float16'):
        for func in ('sum', 'prod', 'mean', 'min', 'max', 'ptp', 'all', 'any', 'median'):
            for skipna in (False, True):
                add('width-%s-%s-%s' % (dt, func, 'skipna' if skipna else 'keepna'), 'width', cost=0.1, dt=dt, func=func, skipna=skipna, axis=1 if func != 'min' else 0)
    return ts
