"""C17 - axis-wise selection and missing-value handling keep slices with their labels."""
import itertools
from vlib.ctx import Ref, same
from props.C01 import DIMS, find
from props.C09 import _build, _axarg

EXPLANATION = ("sort_axis / take_axis / compress_axis / dropna / fillna / setna through the real align.py, dimarraycls.py and "
               "missingvalues.py code with symbolic labels (any order), symbolic data with symbolic NaN pattern, symbolic index lists, "
               "mask bits and fill / match values; oracle: whole slices move with their labels, exactly the designated cells change")
ASSUMPTIONS = ["labels on an axis are pairwise distinct"]
BOUNDS = {'quick': {'nd': '1..3', 'sizes': '1..3 (4 on the operated axis)'}, 'thorough': {'nd': '1..4', 'sizes': '1..4'}}
DEADLINE = {'quick': 120, 'thorough': 1200}


def _select_axis(ref, pos, positions):
    sel = [list(range(n)) for n in ref.shape]
    sel[pos] = list(positions)
    return ref.select(sel)


def sort_axis(ctx, shape, axis, lkind, key=None, dkind='f', under=None):
    ctx.under(under)
    nd = len(shape)
    lkinds = ['i', 'U', 'f', 'i'][:nd]
    kw, pos = _axarg(DIMS[:nd], axis)
    lkinds[pos] = lkind
    if key == 'dict':
        # dict keys must be hashable: concrete labels, every order enumerated by a symbolic permutation choice
        n = shape[pos]
        perms = list(itertools.permutations(range(n)))
        pi = perms[ctx.choice('perm', len(perms))]
        conc = [10 * (p + 1) for p in pi]
        dims = DIMS[:nd]
        labels = [ctx.labels(k, m, 'l%s_' % d) if i != pos else conc for i, (d, m, k) in enumerate(zip(dims, shape, lkinds))]
        ncell = 1
        for m in shape:
            ncell *= m
        cells = ctx.cells(dkind, ncell, 'v')
        attrs = {'units': 'K'}
        a = ctx.mk(dims, labels, cells, lkinds=lkinds, kind=dkind, attrs=attrs)
        ref = Ref(dims, labels, cells)
        rank = dict((l, -l) for l in conc)      # descending by label
        kw['key'] = rank
        keyf = lambda l: rank[l]
    else:
        a, ref, dims, labels, attrs = _build(ctx, shape, lkinds, dkind)
        keyf = (lambda l: l)
        if key == 'neg':
            kw['key'] = lambda x: -x
            keyf = lambda l: -l
        elif key == 'absdiff':
            # distance to a pivot: the sorted order is, in general, not monotonic in the labels themselves
            piv = ctx.label(lkind, 'pivot')

            def keyf(l):
                d = l - piv
                return ctx.symx.ite(d >= 0, d, -d) if ctx.sym else abs(d)
            kw['key'] = keyf
            ks0 = [keyf(l) for l in labels[pos]]
            for i in range(len(ks0)):
                for j in range(i + 1, len(ks0)):
                    ctx.assume(ks0[i] != ks0[j])
    r = ctx.call(lambda: a.sort_axis(**kw))
    if r[0] != 'ok':
        return ctx.done(False, r[1])
    res = r[1]
    if not isinstance(res, ctx.da.DimArray) or tuple(res.dims) != tuple(dims) or tuple(res.values.shape) != tuple(shape):
        return ctx.done(False, ctx.observe(res))
    got = res.axes[pos].values.tolist()
    oks = []
    ks = [keyf(l) for l in got]
    oks.append(ctx.AND(*[ks[i] < ks[i + 1] for i in range(len(ks) - 1)]))        # ascending (labels are distinct)
    src = []
    for g in got:
        i = find(labels[pos], g)
        if i is None:
            return ctx.done(False, ctx.observe(res))
        src.append(i)
    oks.append(same(ctx, res, _select_axis(ref, pos, src), attrs=attrs))
    return ctx.done(ctx.AND(*oks), ctx.observe(res))


def take_axis(ctx, shape, axis, lkind, k, indexing='label', form='list', mode=None, negative=False):
    nd = len(shape)
    lkinds = ['i', 'U', 'f', 'i'][:nd]
    kw, pos = _axarg(DIMS[:nd], axis)
    lkinds[pos] = lkind
    a, ref, dims, labels, attrs = _build(ctx, shape, lkinds)
    n = shape[pos]
    if indexing == 'label':
        qs = [ctx.label(lkind, 'q%d' % j) for j in range(k)]
        src = [find(labels[pos], q) for q in qs]
        idx = list(qs) if form == 'list' else ctx.nparray(qs, kind=lkind)
    else:
        if mode in ('clip', 'wrap'):   # NumPy's out-of-bounds modes: positions -2n..2n-1; clip sends negatives to 0
            raw = [ctx.choice('p%d' % j, 4 * n) - 2 * n for j in range(k)]
            kw['mode'] = mode
        elif negative:          # NumPy's rule for positions: -n..-1 count from the end
            raw = [ctx.choice('p%d' % j, 2 * n) - n for j in range(k)]
        else:
            raw = [ctx.choice('p%d' % j, n) for j in range(k)]
        src = [min(max(p, 0), n - 1) for p in raw] if mode == 'clip' else [p % n for p in raw]
        idx = list(raw) if form == 'list' else ctx.nparray(raw, kind='i')
        kw['indexing'] = 'position'
    r = ctx.call(lambda: a.take_axis(idx, **kw))
    if any(s is None for s in src):
        return ctx.done(r == ('exc', 'IndexError'), r[1] if r[0] != 'ok' else ctx.observe(r[1]))
    if r[0] != 'ok':
        return ctx.done(False, r[1])
    return ctx.done(same(ctx, r[1], _select_axis(ref, pos, src), attrs=attrs), ctx.observe(r[1]))


def compress_axis(ctx, shape, axis, maskform='ndarray'):
    nd = len(shape)
    kw, pos = _axarg(DIMS[:nd], axis)
    a, ref, dims, labels, attrs = _build(ctx, shape, ['U', 'i', 'f', 'i'][:nd])
    bits = [bool(ctx.bool('m%d' % j)) for j in range(shape[pos])]
    if maskform == 'ndarray':
        mask = ctx.nparray(bits, kind='b')
    elif maskform == 'list':
        mask = list(bits)
    else:
        # a 1-D boolean DimArray: the axis= argument says where it applies, whatever the mask's own dimension is called
        mname = {'dimarray-same': dims[pos], 'dimarray-other': dims[(pos + 1) % nd], 'dimarray-default': 'x0'}[maskform]
        mask = ctx.da.DimArray(ctx.nparray(bits, kind='b'), axes=[(mname, ctx.nparray(list(range(len(bits))), kind='i'))])
    r = ctx.call(lambda: a.compress_axis(mask, **kw))
    if r[0] != 'ok':
        return ctx.done(False, r[1])
    return ctx.done(same(ctx, r[1], _select_axis(ref, pos, [j for j, b in enumerate(bits) if b]), attrs=attrs), ctx.observe(r[1]))


def dropna(ctx, shape, axis, minvalid=None, lkind='i', inf=False, under=None):
    ctx.under(under)
    nd = len(shape)
    lkinds = ['i', 'U', 'f', 'i'][:nd]
    kw, pos = _axarg(DIMS[:nd], axis)
    lkinds[pos] = lkind
    a, ref, dims, labels, attrs = _build(ctx, shape, lkinds, 'f', nan=True, inf=inf)
    if minvalid is not None:
        kw['minvalid'] = minvalid
    r = ctx.call(lambda: a.dropna(**kw))
    if r[0] != 'ok':
        return ctx.done(False, r[1])
    slice_size = 1
    for i, m in enumerate(shape):
        if i != pos:
            slice_size *= m
    keep = []
    for j in range(shape[pos]):
        nn = 0
        for p in ref.positions():
            if p[pos] == j and ctx.isnan(ref.at(p)):
                nn += 1
        valid = slice_size - nn
        if (nn == 0) if minvalid is None else (valid >= minvalid):
            keep.append(j)
    return ctx.done(same(ctx, r[1], _select_axis(ref, pos, keep), attrs=attrs), ctx.observe(r[1]))


def fillna(ctx, shape, dkind='f', inplace=False, vkind='f', inf=False, layout=None):
    nd = len(shape)
    ctx.default_layout = layout     # value buffer column-major / a strided view: same answers
    a, ref, dims, labels, attrs = _build(ctx, shape, ['i', 'U', 'f', 'i'][:nd], dkind, nan=(dkind == 'f'), inf=inf)
    v = ctx.real('fill') if vkind == 'f' else ctx.int('fill')
    r = ctx.call(lambda: a.fillna(v, inplace=True) if inplace else a.fillna(v))
    if r[0] != 'ok':
        return ctx.done(False, r[1], inplace=inplace)
    res = a if inplace else r[1]
    exp = [v if ctx.isnan(c) else c for c in ref.cells]
    return ctx.done(same(ctx, res, Ref(dims, labels, exp), attrs=attrs), ctx.observe(res), inplace=inplace)


def setna(ctx, shape, how, dkind='f', inplace=False, inf=False, layout=None):
    nd = len(shape)
    ctx.default_layout = layout
    a, ref, dims, labels, attrs = _build(ctx, shape, ['i', 'U', 'f', 'i'][:nd], dkind, nan=(dkind == 'f' and how != 'mask'), inf=inf)
    mk = (lambda n: ctx.real(n)) if dkind == 'f' else (lambda n: ctx.int(n))
    if how == 'scalar':
        vs = [mk('m0')]
        arg = vs[0]
    elif how in ('list', 'list3', 'list4', 'tuple', 'ndarray', 'ndarray3'):
        vs = [mk('m%d' % j) for j in range({'list': 2, 'list3': 3, 'list4': 4, 'tuple': 2, 'ndarray': 2, 'ndarray3': 3}[how])]
        arg = list(vs) if how.startswith('list') else (tuple(vs) if how == 'tuple' else ctx.nparray(vs, kind=dkind))
    else:
        bits = [bool(ctx.bool('b%d' % j)) for j in range(len(ref.cells))]
        arg = ctx.nparray(bits, shape, kind='b') if how == 'mask' else ctx.mk(dims, labels, bits, kind='b', lkinds=['i', 'U', 'f', 'i'][:nd], register=False)
    r = ctx.call(lambda: a.setna(arg, inplace=True) if inplace else a.setna(arg))
    if r[0] != 'ok':
        return ctx.done(False, r[1], inplace=inplace)
    res = a if inplace else r[1]
    exp = []
    for j, c in enumerate(ref.cells):
        if how in ('scalar', 'list', 'list3', 'list4', 'tuple', 'ndarray', 'ndarray3'):
            hit = (not ctx.isnan(c)) and any(bool(c == v) for v in vs)
        else:
            hit = bits[j]
        exp.append(float('nan') if hit else c)
    anyhit = any(ctx.isnan(e) and not ctx.isnan(c) for e, c in zip(exp, ref.cells))
    kind = 'f' if (dkind == 'i' and anyhit) else None
    return ctx.done(same(ctx, res, Ref(dims, labels, exp), check_kind=kind, attrs=attrs), ctx.observe(res), inplace=inplace)


def templates():
    ts = []

    def add(name, fn, tier='quick', cost=1.0, **params):
        ts.append({'name': name, 'fn': fn, 'params': params, 'tier': tier, 'cost': cost})
    for lk in 'ifU':
        for n in (1, 2, 3, 4):
            add('sort-1d-%s-n%d' % (lk, n), 'sort_axis', cost=0.05 * 4 ** n / 4, shape=[n], axis=0, lkind=lk)
        for shape, axis in (([3, 2], 0), ([2, 3], 'name1'), ([2, 3], -1), ([2, 3, 2], 1), ([3, 2, 2], 'name0'), ([2, 2, 3], 2)):
            add('sort-%s-%s-%s' % (lk, 'x'.join(map(str, shape)), axis), 'sort_axis', cost=1, shape=shape, axis=axis, lkind=lk)
    for lk in 'if':
        add('sort-key-neg-%s' % lk, 'sort_axis', cost=1, shape=[3], axis=0, lkind=lk, key='neg')
        add('sort-key-neg-2d-%s' % lk, 'sort_axis', cost=1, shape=[2, 3], axis='name1', lkind=lk, key='neg')
    for lk in 'if':
        add('sort-key-absdiff-%s' % lk, 'sort_axis', cost=1.5, shape=[3], axis=0, lkind=lk, key='absdiff')
        add('sort-key-absdiff-2d-%s' % lk, 'sort_axis', cost=1.5, shape=[2, 3], axis='name1', lkind=lk, key='absdiff')
    add('sort-key-dict', 'sort_axis', cost=1, shape=[3], axis=0, lkind='i', key='dict')
    add('sort-key-dict-2d', 'sort_axis', cost=1, shape=[3, 2], axis='name0', lkind='i', key='dict')
    add('sort-int-data', 'sort_axis', cost=1, shape=[3], axis=0, lkind='i', dkind='i')
    add('sort-4d', 'sort_axis', 'thorough', cost=3, shape=[2, 2, 3, 2], axis='name2', lkind='f')
    for lk in 'ifU':
        for n, k in ((1, 1), (2, 2), (3, 0), (3, 1), (3, 2), (3, 3), (4, 2)):
            cost = {0: 0.1, 1: 0.3, 2: 2, 3: 12}[k] * (4 if n == 4 else 1)
            add('take-label-%s-n%d-k%d' % (lk, n, k), 'take_axis', 'quick' if cost <= 8 or lk == 'i' else 'thorough', cost, shape=[n], axis=0, lkind=lk, k=k)
        add('take-label-2d-%s' % lk, 'take_axis', cost=3, shape=[2, 3], axis='name1', lkind=lk, k=2, form='array')
        add('take-label-3d-%s' % lk, 'take_axis', cost=3, shape=[2, 3, 2], axis=1, lkind=lk, k=2)
    for shape, axis in (([3], 0), ([2, 3], 1), ([3, 2], 'name0'), ([2, 2, 3], -1)):
        for form in ('list', 'array'):
            add('take-pos-%s-%s-%s' % ('x'.join(map(str, shape)), axis, form), 'take_axis', cost=1, shape=shape, axis=axis, lkind='U', k=3, indexing='position', form=form)
    for mode in ('clip', 'wrap'):
        for shape, axis in (([3], 0), ([2, 3], 1), ([3, 2], 'name0')):
            add('take-pos-%s-%s-%s' % (mode, 'x'.join(map(str, shape)), axis), 'take_axis', cost=1.5, shape=shape, axis=axis, lkind='f', k=2, indexing='position', mode=mode)
    for layout in ('F', 'strided'):
        for inplace in (False, True):
            add('fillna-layout%s-%s' % (layout, inplace), 'fillna', cost=0.5, shape=[2, 3], inplace=inplace, layout=layout)
            for how in ('scalar', 'mask', 'dimmask'):
                for dk in 'fi':
                    add('setna-layout%s-%s-%s-%s' % (layout, dk, how, inplace), 'setna', cost=1, shape=[2, 2], how=how, dkind=dk, inplace=inplace, layout=layout)
    for shape, axis in (([3], 0), ([2, 3], 1), ([3, 2], 'name0'), ([2, 3, 2], 1), ([1, 2], 0)):
        add('compress-%s-%s' % ('x'.join(map(str, shape)), axis), 'compress_axis', cost=0.5, shape=shape, axis=axis)
    for form in ('list', 'dimarray-same', 'dimarray-other', 'dimarray-default'):
        for shape, axis in (([2, 2], 1), ([3, 3], 'name0'), ([2, 2, 2], 1)):
            add('compress-%s-%s-%s' % (form, 'x'.join(map(str, shape)), axis), 'compress_axis', cost=0.5, shape=shape, axis=axis, maskform=form)
    # every other axis has length 1
    for shape, ai in (([3, 1], 0), ([1, 3], 1), ([1, 2, 1], 1), ([2, 1, 1], 0)):
        for mv in (None, 0, 1):
            add('dropna-singletons-%s-mv%s' % ('x'.join(map(str, shape)), mv), 'dropna', cost=0.3, shape=shape, axis=ai, minvalid=mv)
    for n in (1, 2, 3, 4):
        add('dropna-1d-n%d' % n, 'dropna', cost=0.1 * 2 ** n, shape=[n], axis=0)
    add('dropna-1d-U', 'dropna', cost=0.5, shape=[3], axis=0, lkind='U')
    for shape in ([2, 2], [3, 2], [2, 3], [2, 2, 2]):
        ncell = 1
        for m in shape:
            ncell *= m
        for ai in range(len(shape)):
            slice_size = ncell // shape[ai]
            for mv in [None] + list(range(slice_size + 1)):
                for axis in (ai, 'name%d' % ai):
                    if isinstance(axis, str) and mv not in (None, 1):
                        continue
                    add('dropna-%s-%s-mv%s' % ('x'.join(map(str, shape)), axis, mv), 'dropna', 'quick' if ncell <= 6 or mv in (None, 0, 1) else 'thorough',
                        cost=0.02 * 2 ** ncell, shape=shape, axis=axis, minvalid=mv, lkind='if'[ai % 2])
    for dk in 'fi':
        for shape in ([3], [2, 2], [2, 2, 2]):
            for inplace in (False, True):
                add('fillna-%s-%s-%s' % (dk, 'x'.join(map(str, shape)), inplace), 'fillna', cost=0.02 * 2 ** (len(shape) * 2), shape=shape, dkind=dk, inplace=inplace)
                for how in ('scalar', 'list', 'mask', 'dimmask'):
                    if how == 'dimmask' and len(shape) == 1:
                        continue
                    add('setna-%s-%s-%s-%s' % (dk, 'x'.join(map(str, shape)), how, inplace), 'setna', 'quick' if len(shape) < 3 or how in ('mask',) else 'thorough',
                        cost=(0.5 * 2 ** (len(shape) * 2) / 4) if len(shape) < 3 or how == 'mask' else 300, shape=shape, how=how, dkind=dk, inplace=inplace)
    # several values given in other containers than a list
    for how in ('tuple', 'ndarray', 'ndarray3'):
        for shape in ([3], [2, 3], [2, 2]):
            if how == 'ndarray3' and shape != [3]:
                continue
            big = shape == [2, 3]
            add('setna-%s-%s' % (how, 'x'.join(map(str, shape))), 'setna', 'thorough' if big else 'quick', cost=60 if big else 3, shape=shape, how=how, dkind='i' if shape == [2, 2] else 'f')
    for how in ('list3', 'list4'):
        for dk in 'fi':
            add('setna-%s-%s' % (how, dk), 'setna', cost=3, shape=[3], how=how, dkind=dk)
            add('setna-%s-%s-2d' % (how, dk), 'setna', cost=6, shape=[2, 2], how=how, dkind=dk, inplace=True)
    # +-inf are values, not missing data
    add('fillna-inf-1d', 'fillna', cost=1, shape=[3], inf=True)
    add('fillna-inf-2d', 'fillna', cost=3, shape=[2, 2], inf=True, inplace=True)
    add('dropna-inf-1d', 'dropna', cost=1, shape=[3], axis=0, inf=True)
    add('dropna-inf-2d', 'dropna', cost=3, shape=[2, 2], axis=1, inf=True)
    add('dropna-inf-2d-mv1', 'dropna', cost=3, shape=[2, 2], axis=0, minvalid=1, inf=True)
    add('setna-inf-1d', 'setna', cost=2, shape=[3], how='scalar', inf=True)
    # negative positions count from the end
    for shape, axis in (([3], 0), ([2, 3], 1), ([3, 2], 'name0'), ([2, 2, 3], -1)):
        for form in ('list', 'array'):
            add('take-negpos-%s-%s-%s' % ('x'.join(map(str, shape)), axis, form), 'take_axis', cost=1.5, shape=shape, axis=axis, lkind='U', k=2, indexing='position', form=form, negative=True)
    add('sort-under-position', 'sort_axis', cost=1, shape=[3], axis=0, lkind='i', under={'indexing.by': 'position'})
    add('sort-under-position-2d', 'sort_axis', cost=1, shape=[2, 3], axis='name1', lkind='i', under={'indexing.by': 'position'})
    add('dropna-under-position', 'dropna', cost=1, shape=[3, 2], axis=0, lkind='i', under={'indexing.by': 'position'})
    add('dropna-under-position-1d', 'dropna', cost=1, shape=[3], axis=0, lkind='i', under={'indexing.by': 'position'})
    add('fillna-int-value', 'fillna', cost=0.5, shape=[2, 2], dkind='f', vkind='i')
    return ts
