"""C11 - flatten, unflatten and reshape group dimensions losslessly."""
import itertools
from vlib.ctx import Ref, same
from props.C01 import DIMS
from props.C10 import _build, LK

EXPLANATION = ("flatten / unflatten / reshape / tuple-axis reductions through the real reshape.py (flatten, unflatten, reshape, transpose, "
               "newaxis, squeeze), MultiAxis._get_values / _flatten and _deal_with_axis with symbolic member labels of mixed kinds and "
               "symbolic data; oracle: grouped axis named by the comma-joined members, i-th grouped label == i-th row-major combination "
               "of the unchanged member labels, value at a grouped position == original value at that combination; unflatten and "
               "reshape round trips coordinate-wise")
ASSUMPTIONS = ["labels on an axis are pairwise distinct; dimension names are comma-free",
               "the position of the grouped axis is only checked when `insert` is given (the statement does not fix the default position)"]
BOUNDS = {'quick': {'nd': '1..4', 'sizes': '1..3'}, 'thorough': {'nd': '1..4', 'sizes': '1..3'}}
DEADLINE = {'quick': 120, 'thorough': 900}


def grouped_ref(ref, group, insert):
    """reference result of flattening dims `group` (indices, listed order) with the grouped axis at `insert` among the remaining dims"""
    dims = list(ref.dims)
    rest = [i for i in range(len(dims)) if i not in group]
    gname = ','.join(dims[i] for i in group)
    glabels = [tuple(ref.labels[i][p] for i, p in zip(group, combo)) for combo in itertools.product(*[range(ref.shape[i]) for i in group])]
    if len(group) == 1:          # a group of one dimension is that dimension
        glabels = list(ref.labels[group[0]])
    newdims = [dims[i] for i in rest]
    newlabels = [ref.labels[i] for i in rest]
    newdims.insert(insert, gname)
    newlabels.insert(insert, glabels)
    combos = list(itertools.product(*[range(ref.shape[i]) for i in group]))
    cells = []
    for p in itertools.product(*[range(len(l)) for l in newlabels]):
        src = [0] * len(dims)
        pr = [x for k, x in enumerate(p) if k != insert]
        for i, x in zip(rest, pr):
            src[i] = x
        for i, x in zip(group, combos[p[insert]]):
            src[i] = x
        cells.append(ref.at(src))
    return Ref(newdims, newlabels, cells)


def flatten_case(ctx, shape, group, form='tuple', insert=None, reverse=False, lkinds=None, names=True, dimnames=None):
    a, ref, attrs = _build(ctx, shape, lkinds=lkinds, dims=dimnames)
    dims = list(ref.dims)
    # member axes carry their own metadata: "unflatten restores the member axes exactly"
    for i, ax in enumerate(a.axes):
        ax.attrs['units'] = 'u%d' % i
    if ctx.operands:
        ctx.operands[-1]['axis_attrs'] = [dict(ax.attrs) for ax in a.axes]
    nd = len(shape)
    listed = [dims[i] if names else i for i in group]
    if form == 'tuple':
        args = (tuple(listed),)
    elif form == 'list':
        args = (list(listed),)
    elif form == 'set':
        args = (set(listed),)
        group = sorted(group)          # a set is taken in the array's own order
    elif form == 'varargs':
        args = tuple(listed)
    else:
        args = ()
        group = list(range(nd))
    kw = {}
    if insert is not None:
        kw['insert'] = insert
    eff = list(group)
    if reverse:
        kw['reverse'] = True
        eff = [i for i in range(nd) if i not in group]
    r = ctx.call(lambda: a.flatten(*args, **kw))
    if r[0] != 'ok':
        return ctx.done(False, r[1])
    res = r[1]
    nrest = nd - len(eff)
    oks = []
    if insert is not None:
        oks.append(same(ctx, res, grouped_ref(ref, eff, insert), attrs=attrs))
    else:
        gname = ','.join(dims[i] for i in eff)
        if not isinstance(res, ctx.da.DimArray) or gname not in res.dims:
            return ctx.done(False, ctx.observe(res))
        oks.append(same(ctx, res, grouped_ref(ref, eff, list(res.dims).index(gname)), attrs=attrs))
    # unflatten restores the member axes exactly (in listed order, at the grouped position)
    u = ctx.call(lambda: res.unflatten())
    if u[0] != 'ok':
        return ctx.done(False, [ctx.observe(res), u[1]])
    ud = list(u[1].dims) if isinstance(u[1], ctx.da.DimArray) else None
    if ud is None or sorted(ud) != sorted(dims):
        return ctx.done(False, [ctx.observe(res), ctx.observe(u[1])])
    oks.append(same(ctx, u[1], ref.transpose([dims.index(d) for d in ud]), attrs=attrs))
    oks.append(all(dict(u[1].axes[d].attrs) == {'units': 'u%d' % dims.index(d)} for d in dims))
    pos = list(res.dims).index(','.join(dims[i] for i in eff))
    oks.append(ud[pos:pos + len(eff)] == [dims[i] for i in eff])
    gname = ','.join(dims[i] for i in eff)
    u2 = ctx.call(lambda: res.unflatten(gname))
    oks.append(u2[0] == 'ok' and same(ctx, u2[1], ref.transpose([dims.index(d) for d in ud])))
    return ctx.done(ctx.AND(*oks), [ctx.observe(res), ctx.observe(u[1])])


def unflatten_after_T(ctx, shape, group):
    """flatten a subset into a 2-D array, transpose it, then unflatten / reshape: memory layout must not matter"""
    a, ref, attrs = _build(ctx, shape)
    dims = list(ref.dims)
    names = tuple(dims[i] for i in group)
    b = a.flatten(names, insert=1 if len(shape) - len(group) == 1 else 0)
    r = ctx.call(lambda: b.T.unflatten())
    if r[0] != 'ok':
        return ctx.done(False, r[1])
    ud = list(r[1].dims)
    if sorted(ud) != sorted(dims):
        return ctx.done(False, ctx.observe(r[1]))
    ok = same(ctx, r[1], ref.transpose([dims.index(d) for d in ud]), attrs=attrs)
    r2 = ctx.call(lambda: b.T.reshape(dims))
    ok2 = r2[0] == 'ok' and same(ctx, r2[1], ref)
    return ctx.done(ctx.AND(ok, ok2), ctx.observe(r[1]))


def grouped_then_select(ctx, shape, group, how):
    """an array with a grouped axis is indexed along *another* dimension (the group is left alone): the grouped axis keeps its
    member axes, so that unflatten / reshape still restore them"""
    a, ref, attrs = _build(ctx, shape)
    dims = list(ref.dims)
    names = tuple(dims[i] for i in group)
    rest = [i for i in range(len(dims)) if i not in group]
    o = rest[0]
    f = a.flatten(names, insert=1 if o < min(group) else 0)
    lo = ref.labels[o]
    n = len(lo)
    if how == 'scalar':
        j = ctx.choice('j', n)
        g = ctx.call(lambda: f.take(lo[j], axis=dims[o]))
        sel = j
    elif how == 'list':
        g = ctx.call(lambda: f.take([lo[n - 1], lo[0]], axis=dims[o]))
        sel = [n - 1, 0]
    elif how == 'reverse':
        g = ctx.call(lambda: f.ix[tuple(slice(None, None, -1) if d == dims[o] else slice(None) for d in f.dims)])
        sel = list(reversed(range(n)))
    elif how == 'sort':
        g = ctx.call(lambda: f.sort_axis(axis=dims[o]))
        from props.C07 import sorted_positions
        sel = sorted_positions(lo)
    else:
        g = ctx.call(lambda: f.reindex_axis([lo[0]], axis=dims[o]))
        sel = [0]
    if g[0] != 'ok':
        return ctx.done(False, g[1])
    u = ctx.call(lambda: g[1].unflatten())
    if u[0] != 'ok' or not isinstance(u[1], ctx.da.DimArray):
        return ctx.done(False, [ctx.observe(g[1]), u[1] if u[0] != 'ok' else ctx.observe(u[1])])
    full = [list(range(m)) for m in shape]
    full[o] = sel
    exp = ref.select(full)
    ud = list(u[1].dims)
    if sorted(ud) != sorted(exp.dims):
        return ctx.done(False, [ctx.observe(g[1]), ctx.observe(u[1])])
    ok = same(ctx, u[1], exp.transpose([list(exp.dims).index(d) for d in ud]), attrs=attrs)
    r2 = ctx.call(lambda: g[1].reshape(ud))
    ok2 = r2[0] == 'ok' and same(ctx, r2[1], exp.transpose([list(exp.dims).index(d) for d in ud]))
    return ctx.done(ctx.AND(ok, ok2), [ctx.observe(g[1]), ctx.observe(u[1])])


def reshape_case(ctx, shape, target, lkinds=None, transpose=True):
    """target: list of entries; each entry is a list of dim indices (grouped when more than one) or the str 'NEW'"""
    a, ref, attrs = _build(ctx, shape, lkinds=lkinds)
    dims = list(ref.dims)
    names = []
    for t in target:
        names.append({'NEW': 'new', 'NEW2': 'new2'}[t] if isinstance(t, str) else ','.join(dims[i] for i in t))
    kw = {} if transpose else {'transpose': False}
    r = ctx.call(lambda: a.reshape(names, **kw))
    used = [i for t in target if not isinstance(t, str) for i in t]
    dropped = [i for i in range(len(dims)) if i not in used]
    if any(shape[i] != 1 for i in dropped):
        # dropping a non-singleton dimension must be refused
        return ctx.done(r[0] != 'ok', r[1] if r[0] != 'ok' else ctx.observe(r[1]))
    if not transpose and used != sorted(used):
        return ctx.done(r == ('exc', 'ValueError'), r[1] if r[0] != 'ok' else ctx.observe(r[1]))
    if r[0] != 'ok':
        return ctx.done(False, r[1])
    # expected: cells looked up by label coordinates
    newlabels = []
    for t in target:
        if isinstance(t, str):
            newlabels.append([None])
        elif len(t) == 1:
            newlabels.append(ref.labels[t[0]])
        else:
            newlabels.append([tuple(ref.labels[i][p] for i, p in zip(t, combo)) for combo in itertools.product(*[range(shape[i]) for i in t])])
    cells = []
    for p in itertools.product(*[range(len(l)) for l in newlabels]):
        src = [0] * len(dims)
        for t, x in zip(target, p):
            if isinstance(t, str):
                continue
            if len(t) == 1:
                src[t[0]] = x
            else:
                combo = list(itertools.product(*[range(shape[i]) for i in t]))[x]
                for i, c in zip(t, combo):
                    src[i] = c
        cells.append(ref.at(src))
    exp = Ref(names, newlabels, cells)
    res = r[1]
    oks = [same(ctx, res, exp, attrs=attrs)]
    # and back again: reshape to the original (plain) dims restores the array (dropped singleton labels aside)
    if not dropped and not any(isinstance(t, str) for t in target):
        b = ctx.call(lambda: res.reshape(dims))
        oks.append(b[0] == 'ok' and same(ctx, b[1], ref))
    return ctx.done(ctx.AND(*oks), ctx.observe(res))


def tuple_reduce(ctx, shape, group, func, dimnames=None):
    """reducing over a tuple of dimensions equals reducing over the flattened group"""
    a, ref, attrs = _build(ctx, shape, dims=dimnames)
    dims = list(ref.dims)
    names = tuple(dims[i] for i in group)
    r1 = ctx.call(lambda: getattr(a, func)(axis=names))
    r2 = ctx.call(lambda: getattr(a.flatten(names, insert=0), func)(axis=0))
    if r1[0] != 'ok' or r2[0] != 'ok':
        return ctx.done(False, [r1[1] if r1[0] != 'ok' else None, r2[1] if r2[0] != 'ok' else None])
    x, y = r1[1], r2[1]
    if isinstance(x, ctx.da.DimArray) != isinstance(y, ctx.da.DimArray):
        return ctx.done(False, [ctx.observe(x), ctx.observe(y)])
    if not isinstance(x, ctx.da.DimArray):
        return ctx.done(ctx.eq(ctx.scalar(x), ctx.scalar(y)), [ctx.observe(x), ctx.observe(y)])
    rest = [i for i in range(len(dims)) if i not in group]
    if func in ('cumsum', 'cumprod', 'diff'):
        exp = Ref(list(y.dims), [ax.values.tolist() for ax in y.axes], ctx.flat(y.values.tolist()))
        return ctx.done(ctx.AND(same(ctx, x, exp), y.dims[0] == ','.join(names)), [ctx.observe(x), ctx.observe(y)])
    exp = Ref([dims[i] for i in rest], [ref.labels[i] for i in rest], ctx.flat(y.values.tolist()))
    return ctx.done(ctx.AND(same(ctx, x, exp), tuple(y.dims) == tuple(dims[i] for i in rest)), [ctx.observe(x), ctx.observe(y)])


def templates():
    ts = []

    def add(name, fn, tier='quick', cost=1.0, **params):
        ts.append({'name': name, 'fn': fn, 'params': params, 'tier': tier, 'cost': cost})
    shapes = {1: [[3], [1]], 2: [[2, 3], [2, 2], [1, 2]], 3: [[2, 3, 2], [2, 2, 2], [2, 1, 3]], 4: [[2, 1, 2, 3], [2, 2, 2, 2]]}
    for nd, shs in shapes.items():
        for si, sh in enumerate(shs):
            nm = 'x'.join(map(str, sh))
            for k in range(1, nd + 1):
                for group in itertools.permutations(range(nd), k):
                    inserts = [None] + list(range(nd - k + 1))
                    for insert in inserts:
                        quick = (si == 0) or (insert is None)
                        if nd == 4 and k >= 3 and si != 0:
                            quick = False
                        add('flatten-%s-g%s-ins%s' % (nm, ''.join(map(str, group)), insert), 'flatten_case', 'quick' if quick else 'thorough', cost=0.15,
                            shape=sh, group=list(group), insert=insert)
            add('flatten-%s-all' % nm, 'flatten_case', cost=0.1, shape=sh, group=[], form='none')
            if nd >= 2:
                add('flatten-%s-set' % nm, 'flatten_case', cost=0.1, shape=sh, group=[nd - 1, 0], form='set')
                add('flatten-%s-list' % nm, 'flatten_case', cost=0.1, shape=sh, group=[nd - 1, 0], form='list')
                add('flatten-%s-varargs' % nm, 'flatten_case', cost=0.1, shape=sh, group=[0, nd - 1], form='varargs')
                add('flatten-%s-pos' % nm, 'flatten_case', cost=0.1, shape=sh, group=[1, 0], names=False)
                add('flatten-%s-reverse' % nm, 'flatten_case', cost=0.1, shape=sh, group=[0], reverse=True, insert=0)
    # member axes of every kind combination (labels must come through unchanged)
    for lks in itertools.product('ifU', repeat=2):
        add('kinds-%s%s' % lks, 'flatten_case', cost=0.2, shape=[2, 2], group=[0, 1], lkinds=list(lks))
        add('kinds-%s%s-rev' % lks, 'flatten_case', cost=0.2, shape=[2, 2, 2], group=[2, 0], lkinds=list(lks) + ['i'], insert=1)
    add('kinds-iUf', 'flatten_case', cost=0.3, shape=[2, 2, 2], group=[0, 1, 2], lkinds=['i', 'U', 'f'])
    # reshape targets
    R = [
        ([2, 3], [[0, 1]]), ([2, 3], [[1, 0]]), ([2, 3], [[1], [0]]), ([2, 3], [[0], 'NEW', [1]]), ([2, 3], ['NEW', [1, 0]]),
        ([2, 3, 2], [[0, 1], [2]]), ([2, 3, 2], [[2], [0, 1]]), ([2, 3, 2], [[1], [2, 0]]), ([2, 3, 2], [[2, 1, 0]]), ([2, 3, 2], [[0, 2], [1]]),
        ([2, 1, 3], [[0], [2]]), ([2, 1, 3], [[2, 0]]), ([2, 1, 3], [[0, 1], [2]]), ([1, 2, 1], [[1]]), ([1, 2, 1], [[2], [1]]), ([1, 2, 1], [[1], [0]]),
        ([2, 1, 2, 3], [[3, 0], [2]]), ([2, 1, 2, 3], [[0, 1], [2, 3]]), ([2, 1, 2, 3], [[3], [1, 2], 'NEW', [0]]), ([2, 2, 2, 2], [[0, 3], [2, 1]]),
        ([2, 3], [[0]]), ([3], [[0], 'NEW']), ([3], ['NEW', [0]]), ([2, 3, 2], [[2], [1], [0]]),
        # two groups followed / preceded / separated by a further dimension
        ([2, 2, 2, 1], [[0, 1], [2, 3], 'NEW']), ([2, 2, 2, 1], [[1, 0], [3, 2], 'NEW']), ([2, 2, 2, 1], ['NEW', [0, 1], [2, 3]]), ([2, 2, 2, 1], [[0, 1], 'NEW', [2, 3]]),
        ([2, 2, 1, 2], [[0, 1], [2], [3]]), ([2, 1, 2, 2], [[0, 1], [2, 3], 'NEW', 'NEW2']),
    ]
    for k, (sh, target) in enumerate(R):
        add('reshape-%d-%s' % (k, 'x'.join(map(str, sh))), 'reshape_case', cost=0.3, shape=sh, target=target)
    for sh, group in (([2, 3, 2], [1, 2]), ([2, 3, 2], [0, 1]), ([3, 2, 2], [2, 1]), ([2, 3], [0, 1])):
        add('unflatten-after-T-%s-g%s' % ('x'.join(map(str, sh)), ''.join(map(str, group))), 'unflatten_after_T', cost=0.3, shape=sh, group=group)
    for how in ('scalar', 'list', 'reverse', 'sort', 'reindex'):
        for sh, group in (([2, 2, 3], [1, 2]), ([3, 2, 2], [1, 2]), ([2, 3, 2], [0, 2])):
            add('grouped-then-%s-%s-g%s' % (how, 'x'.join(map(str, sh)), ''.join(map(str, group))), 'grouped_then_select', cost=0.5, shape=sh, group=group, how=how)
    add('reshape-notranspose-ok', 'reshape_case', cost=0.3, shape=[2, 3, 2], target=[[0, 1], [2]], transpose=False)
    add('reshape-notranspose-refused', 'reshape_case', cost=0.3, shape=[2, 3, 2], target=[[1, 0], [2]], transpose=False)
    add('reshape-mixed-kinds', 'reshape_case', cost=0.3, shape=[2, 2], target=[[1, 0]], lkinds=['i', 'U'])
    for func in ('mean', 'sum', 'median', 'max', 'argmax', 'argmin', 'cumsum'):
        for sh, group in (([2, 3, 2], [0, 2]), ([2, 3, 2], [2, 0]), ([2, 3, 2], [1, 0]), ([2, 2], [1, 0]), ([2, 1, 2, 3], [3, 0]), ([2, 2, 2, 2], [0, 3, 2]),
                          ([2, 2, 2], [0, 1]), ([2, 2], [0, 1]), ([2, 2, 2], [1, 2])):      # leading / all / trailing dimensions in storage order: flatten() is a view there
            if func.startswith('arg') and len(sh) == 4:
                continue
            add('tuple-%s-%s-g%s' % (func, 'x'.join(map(str, sh)), ''.join(map(str, group))), 'tuple_reduce', cost=0.3 if not func.startswith('arg') else 15, shape=sh, group=group, func=func)
    # dimension names that are not in alphabetical order (a set of names has no order of its own: the array's order counts)
    for names in (['t', 'y', 'x'], ['time', 'lat', 'lon']):
        tag = ''.join(n[0] for n in names)
        for group, form in (([0, 1], 'set'), ([1, 2], 'set'), ([0, 2], 'set'), ([2, 0], 'tuple'), ([1, 0], 'list'), ([0, 1, 2], 'none')):
            add('flatten-dimnames-%s-%s-g%s' % (tag, form, ''.join(map(str, group))), 'flatten_case', cost=0.5, shape=[2, 3, 2], group=group, form=form, dimnames=names)
        for func in ('mean', 'max', 'cumsum'):
            add('tuple-dimnames-%s-%s' % (tag, func), 'tuple_reduce', cost=0.5, shape=[2, 3, 2], group=[2, 0], func=func, dimnames=names)
    return ts
