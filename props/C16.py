"""C16 - metadata: attribute routing and propagation rules."""
import itertools
from vlib.ctx import Ref, same
from props.C01 import DIMS
from props.C10 import LK

EXPLANATION = ("attribute routing through the real GetSetDelAttrMixin.__getattr__/__setattr__/__delattr__ on DimArray, Dataset and Axis "
               "for a pool of names computed by introspection (every public class member, private names, dimension names, free names, "
               "names stored in attrs that collide with members) with symbolic values; propagation: ~45 operations of every class the "
               "statement lists run on arrays carrying symbolic array-level and axis-level metadata, oracle = carried unchanged / not "
               "carried as the statement says")
ASSUMPTIONS = ["attribute *names* are enumerated from a pool (bounded enumeration over names), the solver decides the value dimension and per-name paths",
               "labels on an axis are pairwise distinct"]
BOUNDS = {'quick': {'names': 'all public members of the three classes + private + dimension + free names', 'operations': 45},
          'thorough': {'names': 'same', 'operations': 45}}
DEADLINE = {'quick': 120, 'thorough': 900}


def _mk(ctx, what):
    da = ctx.da
    lx = ctx.labels('i', 2, 'lx')
    ly = ctx.labels('U', 2, 'ly')
    cells = ctx.cells('f', 4, 'v')
    if what == 'axis':
        return da.Axis(ctx.nparray(lx, kind='i'), 'x'), [], {'x': lx}
    a = ctx.mk(['x', 'y'], [lx, ly], cells, lkinds=['i', 'U'], register=False)
    if what == 'dimarray':
        return a, ['x', 'y'], {'x': lx, 'y': ly}
    ds = da.Dataset()
    ds['a'] = a
    return ds, ['x', 'y'], {'x': lx, 'y': ly}


def _members(cls):
    return sorted(n for n in dir(cls) if not n.startswith('__'))


def routing(ctx, what, part):
    """part selects a slice of the name pool (keeps single runs short)"""
    da = ctx.da
    cls = {'axis': da.Axis, 'dimarray': da.DimArray, 'dataset': da.Dataset}[what]
    members = _members(cls)
    public_members = [n for n in members if not n.startswith('_')]
    private_members = [n for n in members if n.startswith('_')]
    free = ['units', 'long_name', 'foo', 'Name', 'x0']
    private = ['_foo', '_units', '__bar']
    oks = []
    notes = []
    v = ctx.real('val')
    w = ctx.real('val2')
    mut = [1, 2]

    def fresh():
        return _mk(ctx, what)
    if part == 'free':
        for name in free:
            o, dims, labels = fresh()
            if name in dims or hasattr(cls, name):
                continue
            setattr(o, name, v)
            oks.append(name in o.attrs and o.attrs[name] is v)
            oks.append(getattr(o, name) is v)
            oks.append(name not in o.__dict__)
            setattr(o, name, mut)
            oks.append(o.attrs[name] is mut and getattr(o, name) is mut)
            delattr(o, name)
            oks.append(name not in o.attrs)
            r = ctx.call(lambda: getattr(o, name))
            oks.append(r == ('exc', 'AttributeError'))
            r = ctx.call(lambda: delattr(o, name))
            oks.append(r == ('exc', 'AttributeError'))
            # attrs dict and attribute syntax are two views of the same store
            o.attrs[name] = w
            oks.append(getattr(o, name) is w)
    elif part == 'values':
        # values of any type, falsy ones included, are stored, read and deleted the same way
        np = ctx.np
        pool = [0, 0.0, '', [], {}, (), False, None, 'abc', np.array([1, 2]), np.array([]), np.array(0), [0], ctx.int('ival')]
        for k, val in enumerate(pool):
            name = 'units'
            o, dims, labels = fresh()
            setattr(o, name, val)
            oks.append(name in o.attrs and o.attrs[name] is val)
            oks.append(getattr(o, name) is val)
            r = ctx.call(lambda: delattr(o, name))
            ok = r[0] == 'ok' and name not in o.attrs
            if ok is False:
                notes.append(('delete-failed', repr(val)[:20]))
            oks.append(ok)
            oks.append(ctx.call(lambda: getattr(o, name)) == ('exc', 'AttributeError'))
    elif part == 'kwset':
        # the keyword form of attribute setting (Axis.set / set_axis(**kwargs)) follows the same routing rules
        def kwset(o, **kw):
            if what == 'axis':
                o.set(**kw)
                return o
            o.set_axis(axis='x', **kw)
            return o.axes['x']
        o, dims, labels = fresh()
        ax = kwset(o, units=v, long_name='L')
        oks.append(ax.attrs.get('units') is v and ax.attrs.get('long_name') == 'L' and ax.units is v)
        axis_members = [n for n in _members(da.Axis) if not n.startswith('_')]
        for name in ('tol', 'weights'):
            if name not in axis_members:
                continue
            o, dims, labels = fresh()
            ax = kwset(o, **{name: w})
            inattrs = name in ax.attrs
            if inattrs:
                notes.append(('kwset-entered-attrs', name))
            oks.append(not inattrs)
            g = ctx.call(lambda: getattr(ax, name))
            oks.append(g[0] == 'ok' and g[1] is w)
        for name in ('_foo', '_units'):
            o, dims, labels = fresh()
            ax = kwset(o, **{name: w})
            oks.append(name not in ax.attrs)
            g = ctx.call(lambda: getattr(ax, name))
            oks.append(g[0] == 'ok' and g[1] is w)
    elif part == 'dims':
        for what_dim in ('x', 'y'):
            o, dims, labels = fresh()
            if what_dim not in dims:
                continue
            got = getattr(o, what_dim)
            oks.append(ctx.eqlist(got.tolist(), labels[what_dim]))
            kind = LK[DIMS.index(what_dim)]
            new = ctx.labels(kind, 2, 'n' + what_dim)
            setattr(o, what_dim, list(new))
            oks.append(what_dim not in o.attrs)
            oks.append(ctx.eqlist(o.axes[what_dim].values.tolist(), new))
            oks.append(ctx.eqlist(getattr(o, what_dim).tolist(), new))
            if what == 'dataset':
                oks.append(ctx.eqlist(o['a'].axes[what_dim].values.tolist(), new))
            # an attrs entry under a dimension's name does not shadow the labels
            o.attrs[what_dim] = v
            g = ctx.call(lambda: getattr(o, what_dim))
            oks.append(g[0] == 'ok' and g[1] is not v and hasattr(g[1], 'tolist') and ctx.eqlist(g[1].tolist(), new))
    elif part == 'private':
        for name in private:
            o, dims, labels = fresh()
            setattr(o, name, v)
            oks.append(name not in o.attrs)
            oks.append(getattr(o, name) is v)
            delattr(o, name)
            oks.append(ctx.call(lambda: getattr(o, name)) == ('exc', 'AttributeError'))
            # stored in attrs under a private name: neither reachable nor deletable through attribute syntax
            o.attrs[name] = w
            oks.append(ctx.call(lambda: getattr(o, name)) == ('exc', 'AttributeError'))
            oks.append(ctx.call(lambda: delattr(o, name)) == ('exc', 'AttributeError'))
            oks.append(name in o.attrs and o.attrs[name] is w)
    else:
        # class members: never enter attrs; attrs entries under their names are invisible to attribute syntax
        chunk = int(part[3:])
        names = [n for i, n in enumerate(public_members + private_members) if i % 4 == chunk]
        for name in names:
            o, dims, labels = fresh()
            before = ctx.call(lambda: getattr(o, name))
            o.attrs[name] = w
            after = ctx.call(lambda: getattr(o, name))
            if before[0] == 'ok':
                same_ = after[0] == 'ok' and after[1] is not w and type(after[1]) is type(before[1])
                if not same_:
                    notes.append(('get-shadowed', name))
                oks.append(same_)
            else:
                oks.append(not (after[0] == 'ok' and after[1] is w))
            if name != 'attrs':        # `del obj.attrs` is the documented way of clearing all metadata
                r = ctx.call(lambda: delattr(o, name))
                keep = name in o.attrs and o.attrs[name] is w
                if not keep:
                    notes.append(('del-removed-attrs-entry', name))
                oks.append(keep)
            o2, _, _ = fresh()
            r = ctx.call(lambda: setattr(o2, name, v))
            inattrs = name in o2.attrs
            if inattrs:
                notes.append(('set-entered-attrs', name))
            oks.append(not inattrs)
    if notes:
        ctx.note('routing', notes[:10])
    return ctx.done(ctx.AND(*oks), notes[:10], inplace=True)


def _eqish(ctx, a, b):
    try:
        if hasattr(a, 'tolist') and hasattr(b, 'tolist'):
            return bool(ctx.eqlist(ctx.flat(a.tolist()), ctx.flat(b.tolist())))
        if callable(a) and callable(b):
            return getattr(a, '__func__', a) is getattr(b, '__func__', b) or getattr(a, '__name__', 1) == getattr(b, '__name__', 2)
        return bool(a == b)
    except Exception:
        return False


OPS = {
    # name: (kind, function) ; kind: 'keep' (array attrs carried), 'drop' (operands' attrs not carried)
    'index-scalar': ('keep', lambda c, a, b, L: a[L['x'][0]]),
    'index-list': ('keep', lambda c, a, b, L: a[[L['x'][1], L['x'][0]]]),
    'index-slice': ('keep', lambda c, a, b, L: a[:, L['y'][0]:L['y'][0]]),
    'index-mask': ('keep', lambda c, a, b, L: a[c.nparray([True, False], kind='b')]),
    'index-ix': ('keep', lambda c, a, b, L: a.ix[:, [1]]),
    'index-take': ('keep', lambda c, a, b, L: a.take(L['x'][0], axis='x', keepdims=True)),
    'index-mask-nd': ('keep', lambda c, a, b, L: a[c.nparray([True, False, False, True], [2, 2], kind='b')]),
    'reduce-sum': ('keep', lambda c, a, b, L: a.sum(axis='x')),
    'reduce-mean-pos': ('keep', lambda c, a, b, L: a.mean(axis=1)),
    'reduce-median-skipna': ('keep', lambda c, a, b, L: a.median(axis='y', skipna=True)),
    'reduce-tuple': ('keep', lambda c, a, b, L: a.newaxis('z').max(axis=('y', 'z'))),
    'reduce-tuple-transposing': ('keep', lambda c, a, b, L: a.newaxis('z', pos=1).min(axis=('z', 'x'))),
    'cumsum': ('keep', lambda c, a, b, L: a.cumsum(axis='x')),
    'diff': ('keep', lambda c, a, b, L: a.diff(axis='x')),
    'diff-keepaxis': ('keep', lambda c, a, b, L: a.diff(axis='x', keepaxis=True, scheme='forward')),
    'argmax': ('keep', lambda c, a, b, L: a.argmax(axis='y')),
    'transpose': ('keep', lambda c, a, b, L: a.transpose('y', 'x')),
    'T': ('keep', lambda c, a, b, L: a.T),
    'swapaxes': ('keep', lambda c, a, b, L: a.swapaxes(0, 1)),
    'rollaxis': ('keep', lambda c, a, b, L: a.rollaxis('y')),
    'newaxis': ('keep', lambda c, a, b, L: a.newaxis('z', pos=1)),
    'squeeze': ('keep', lambda c, a, b, L: a.newaxis('z').squeeze()),
    'repeat': ('keep', lambda c, a, b, L: a.newaxis('z').repeat(2, axis='z')),
    'broadcast': ('keep', lambda c, a, b, L: a.broadcast([c.da.Axis([1, 2], 'z')] + list(a.axes))),
    'flatten': ('keep', lambda c, a, b, L: a.flatten()),
    'flatten-reordered': ('keep', lambda c, a, b, L: a.flatten(('y', 'x'))),
    'unflatten': ('keep', lambda c, a, b, L: a.flatten().unflatten()),
    'reshape': ('keep', lambda c, a, b, L: a.reshape('y,x')),
    'reshape-new': ('keep', lambda c, a, b, L: a.reshape('y', 'new', 'x')),
    'reindex_axis': ('keep', lambda c, a, b, L: a.reindex_axis([L['x'][0], L['x'][0] + 1, L['x'][1]], axis='x')),
    'reindex_like': ('keep', lambda c, a, b, L: a.reindex_like(b)),
    'sort_axis': ('keep', lambda c, a, b, L: a.sort_axis(axis='x')),
    'take_axis': ('keep', lambda c, a, b, L: a.take_axis([L['x'][1]], axis='x')),
    'compress_axis': ('keep', lambda c, a, b, L: a.compress_axis(c.nparray([True, False], kind='b'), axis='y')),
    'dropna': ('keep', lambda c, a, b, L: a.dropna(axis='x')),
    'interp_axis': ('keep', lambda c, a, b, L: a.interp_axis([L['x'][0] + 0.5], axis='x')),
    'interp_axis-own-labels': ('keep', lambda c, a, b, L: a.interp_axis([L['x'][0], L['x'][1]], axis='x')),
    'interp_axis-own-labels-array': ('keep', lambda c, a, b, L: a.interp_axis(a.axes['x'].values, axis='x')),
    'interp_like-self': ('keep', lambda c, a, b, L: a.interp_like(a)),
    'reindex_axis-own-labels': ('keep', lambda c, a, b, L: a.reindex_axis(a.axes['x'].values, axis='x')),
    'reindex_like-self': ('keep', lambda c, a, b, L: a.reindex_like(a)),
    'sort_axis-sorted': ('keep', lambda c, a, b, L: a.sort_axis(axis='x').sort_axis(axis='x')),
    'take-everything': ('keep', lambda c, a, b, L: a[:, :]),
    'transpose-identity': ('keep', lambda c, a, b, L: a.transpose('x', 'y')),
    'squeeze-nothing': ('keep', lambda c, a, b, L: a.squeeze()),
    'interp_axis-1d': ('keep', lambda c, a, b, L: a[:, L['y'][0]].interp_axis([L['x'][0] + 0.5], axis='x')),
    'arith-add': ('drop', lambda c, a, b, L: a + b),
    'arith-scalar': ('drop', lambda c, a, b, L: a * 2),
    'arith-rscalar': ('drop', lambda c, a, b, L: 2 - a),
    'neg': ('drop', lambda c, a, b, L: -a),
    'compare-eq': ('drop', lambda c, a, b, L: a == a),
    'compare-lt': ('drop', lambda c, a, b, L: a < 1),
    'ufunc-add': ('drop-real', lambda c, a, b, L: c.np.add(a, 1)),
    'ufunc-less': ('drop-real', lambda c, a, b, L: c.np.less(a, 1)),
    'ndarray-left-add': ('drop-real', lambda c, a, b, L: c.nparray([1.0, 2.0, 3.0, 4.0], [2, 2], kind='f') + a),
    'ndarray-left-lt': ('drop-real', lambda c, a, b, L: c.nparray([1.0, 2.0, 3.0, 4.0], [2, 2], kind='f') < a),
    'values-plus-array': ('drop-real', lambda c, a, b, L: a.values + a),
    'concatenate-single': ('drop', lambda c, a, b, L: c.da.concatenate([a], axis='y')),
    'concatenate-single-tuple': ('drop', lambda c, a, b, L: c.da.concatenate((a,), axis=0)),
    'stack-single': ('drop', lambda c, a, b, L: c.da.stack([a], axis='k')),
    'concatenate-three': ('drop', lambda c, a, b, L: c.da.concatenate([a, a, a], axis='x')),
    'stack': ('drop', lambda c, a, b, L: c.da.stack([a, a], axis='k')),
    'concatenate': ('drop', lambda c, a, b, L: c.da.concatenate([a, a], axis='y')),
    'stack-align': ('drop', lambda c, a, b, L: c.da.stack([a, b], axis='k', align=True)),
}


def propagation(ctx, op, odd=False):
    da = ctx.da
    lx = ctx.labels('i', 2, 'lx', order='inc')
    ly = ctx.labels('f', 2, 'ly')
    cells = ctx.cells('f', 4, 'v')
    u = ctx.real('meta')
    hist = [1, 2]
    attrs = {'units': u, 'hist': hist}
    if odd:
        # metadata stored under names that are also keywords of the constructor, or that start with an underscore (written through
        # the attrs dictionary), must be carried like any other
        attrs.update({'copy': 'yes', 'labels': 'lab', 'dims': 'dd', '_FillValue': 'fv', '_indexing_note': 'n'})
    a = ctx.mk(['x', 'y'], [lx, ly], cells, lkinds=['i', 'f'], attrs=attrs)
    bx = [lx[0], ctx.int('bx1')]
    ctx.assume(bx[1] != bx[0])
    b = ctx.mk(['x', 'y'], [bx, ly], ctx.cells('f', 4, 'w'), lkinds=['i', 'f'], attrs={'other': 1})
    kind, f = OPS[op]
    if kind == 'drop-real':
        # arithmetic driven by NumPy (a ufunc call, or an ndarray as the left operand): decided by the real-stack replay only,
        # the NumPy model does not reproduce the dispatch to __array_wrap__ / __array_priority__
        if ctx.sym:
            return ctx.done(True, None)
        kind = 'drop'
    r = ctx.call(lambda: f(ctx, a, b, {'x': lx, 'y': ly}))
    if r[0] != 'ok':
        return ctx.done(False, r[1])
    res = r[1]
    if not isinstance(res, da.DimArray):
        return ctx.done(True, ctx.observe(res))          # scalar results carry no metadata
    if kind == 'keep':
        ok = ctx.AND(set(res.attrs.keys()) == set(attrs.keys()), res.attrs.get('units') is u, res.attrs.get('hist') == hist,
                     all(res.attrs.get(k) == v for k, v in attrs.items() if isinstance(v, str)))
    else:
        ok = ctx.AND('units' not in res.attrs, 'hist' not in res.attrs, 'other' not in res.attrs)
    return ctx.done(ok, ctx.observe(res))


AXIS_OPS = {
    'slice-label': lambda c, a, L: a[L['x'][0]:L['x'][1]],
    'slice-position': lambda c, a, L: a.ix[0:1],
    'slice-neg': lambda c, a, L: a.ix[::-1],
    'slice-other-dim': lambda c, a, L: a[:, [L['y'][0]]],
    'reindex_axis': lambda c, a, L: a.reindex_axis([L['x'][1], L['x'][0]], axis='x'),
    'reindex_axis-missing': lambda c, a, L: a.reindex_axis([L['x'][1], L['x'][1] + 1], axis='x'),
    'reindex_axis-axis-arg': lambda c, a, L: a.reindex_axis(c.da.Axis([L['x'][1], L['x'][1] + 1], 'x', long_name='other axis')),
    'reindex_axis-real-missing': lambda c, a, L: a.reindex_axis([L['x'][0] + 0.0, L['x'][0] + 0.5, L['x'][1] + 0.0], axis='x'),
    'reindex_axis-real-missing-ndarray': lambda c, a, L: a.reindex_axis(c.nparray([L['x'][0] + 0.5, L['x'][1] + 0.0], kind='f'), axis='x'),
    'reindex_axis-real-present': lambda c, a, L: a.reindex_axis([L['x'][1] + 0.0, L['x'][0] + 0.0], axis='x'),
    'align': lambda c, a, L: c.da.align([c.mk(['x'], [[L['x'][1] + 1]], [0.0], register=False), a])[1],
    'list-index': lambda c, a, L: a[[L['x'][1], L['x'][0]]],
    'empty-mask': lambda c, a, L: a[c.nparray([False, False], kind='b')],
    'empty-mask-from-axis': lambda c, a, L: a[a.x > L['x'][1]],
    'empty-slice-position': lambda c, a, L: a.ix[0:0],
    'empty-list-position': lambda c, a, L: a.ix[[]],
    'empty-slice-label': lambda c, a, L: a[L['x'][1] + 1:L['x'][1] + 2],
    'empty-take_axis': lambda c, a, L: a.take_axis([], axis='x', indexing='position'),
    'take_axis': lambda c, a, L: a.take_axis([L['x'][1]], axis='x'),
    'transpose': lambda c, a, L: a.T,
    'reduce-other': lambda c, a, L: a.sum(axis='y'),
}


def axis_metadata(ctx, op):
    """an axis' metadata survives slicing and reindexing of that axis (and operations that leave the axis alone)"""
    lx = ctx.labels('i', 2, 'lx', order='inc')
    ly = ctx.labels('U', 2, 'ly')
    a = ctx.mk(['x', 'y'], [lx, ly], ctx.cells('f', 4, 'v'), lkinds=['i', 'U'], register=False)
    u = ctx.real('meta')
    a.axes['x'].attrs['long_name'] = u
    a.axes['x'].attrs['hist'] = [3]
    r = ctx.call(lambda: AXIS_OPS[op](ctx, a, {'x': lx, 'y': ly}))
    if r[0] != 'ok':
        return ctx.done(False, r[1])
    res = r[1]
    at = res.axes['x'].attrs
    ok = ctx.AND(set(at.keys()) == {'long_name', 'hist'}, at.get('long_name') is u, at.get('hist') == [3],
                 a.axes['x'].attrs.get('long_name') is u)
    return ctx.done(ok, sorted(at.keys()), inplace=True)


def templates():
    ts = []

    def add(name, fn, tier='quick', cost=1.0, **params):
        ts.append({'name': name, 'fn': fn, 'params': params, 'tier': tier, 'cost': cost})
    for what in ('dimarray', 'dataset', 'axis'):
        for part in ('free', 'values', 'kwset', 'dims', 'private', 'mem0', 'mem1', 'mem2', 'mem3'):
            if part == 'dims' and what == 'axis':
                continue
            add('routing-%s-%s' % (what, part), 'routing', cost=1, what=what, part=part)
    for op in OPS:
        add('propagate-%s' % op, 'propagation', cost=0.5, op=op)
    for op in OPS:
        if OPS[op][0] == 'keep':
            add('propagate-oddnames-%s' % op, 'propagation', cost=0.5, op=op, odd=True)
    for op in AXIS_OPS:
        add('axis-meta-%s' % op, 'axis_metadata', cost=0.5, op=op)
    return ts
