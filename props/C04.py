"""C04 - arithmetic aligns operands by dimension name and by label."""
import itertools
from vlib.ctx import Ref, same
from props.C01 import find

EXPLANATION = ("a op b through the real OpMixin / _binary_op / operation / align / _common_axis / Axis.union / reindex_axis / "
               "align_dims / reshape / newaxis / transpose with symbolic labels of both operands (each operand's labels distinct, "
               "nothing assumed across operands) and symbolic data; oracle: result dims = a.dims + new dims of b, shared axes = set "
               "union, cell = a[coord] op b[coord] where both defined else NaN; scalar / ndarray operands cellwise")
ASSUMPTIONS = ["labels on an axis are pairwise distinct", "divisor cells are non-zero; // and ** are uninterpreted kernels (same kernel on both sides)",
               "data cells are finite (no NaN in the operands)", "for ** : exponent cells != 0 and base cells != 1 (IEEE special cases nan**0 == 1, 1**nan == 1 are outside the claim)"]
BOUNDS = {'quick': {'nd per operand': '0..2 (3 with singleton sizes)', 'labels per shared axis': '1..2 x 1..3'},
          'thorough': {'nd per operand': '0..3', 'labels per shared axis': 'up to 3 x 3'}}
DEADLINE = {'quick': 150, 'thorough': 1500}
QUICK_SAMPLE_COST = 30.0

OPS = {'add': lambda a, b: a + b, 'sub': lambda a, b: a - b, 'mul': lambda a, b: a * b, 'div': lambda a, b: a / b,
       'floordiv': lambda a, b: a // b, 'pow': lambda a, b: a ** b}


def cell_op(ctx, op, x, y):
    """the numpy kernel on two cells, through numpy itself (1-element arrays)"""
    np = ctx.np
    f = {'add': np.add, 'sub': np.subtract, 'mul': np.multiply, 'div': np.true_divide, 'floordiv': np.floor_divide, 'pow': np.power}[op]
    return f(ctx.nparray([x]), ctx.nparray([y])).tolist()[0]


def mk_operand(ctx, tag, dims, sizes, lkinds, dkind, reuse=None):
    """reuse: {dim: labels} - dimensions that carry the very same labels as another operand (no case split on them)"""
    reuse = reuse or {}
    labels = [reuse[d] if d in reuse and len(reuse[d]) == n else ctx.labels(k, n, 'l%s%s_' % (tag, d)) for d, n, k in zip(dims, sizes, lkinds)]
    n = 1
    for m in sizes:
        n *= m
    cells = ctx.cells(dkind, n, 'v%s' % tag)
    a = ctx.mk(dims, labels, cells, lkinds=lkinds, kind=dkind)
    return a, Ref(dims, labels, cells)


def check_result(ctx, res, ra, rb, op, swap=False):
    """the C04 oracle on a result DimArray, given the two reference operands"""
    da = ctx.da
    exp_dims = list(ra.dims) + [d for d in rb.dims if d not in ra.dims]
    if not isinstance(res, da.DimArray):
        if exp_dims:
            return False
        x, y = ra.cells[0], rb.cells[0]
        return ctx.eq(ctx.scalar(res), cell_op(ctx, op, x, y))
    if list(res.dims) != exp_dims:
        return False
    oks = []
    rl = [ax.values.tolist() for ax in res.axes]
    for d, got in zip(exp_dims, rl):
        la = ra.labels[ra.dims.index(d)] if d in ra.dims else None
        lb = rb.labels[rb.dims.index(d)] if d in rb.dims else None
        for i, j in itertools.combinations(range(len(got)), 2):
            oks.append(ctx.NOT(ctx.eq(got[i], got[j])))          # each label once
        for src in (la, lb):
            if src is not None:
                for l in src:
                    oks.append(ctx.OR(*[ctx.eq(l, g) for g in got]))   # nothing lost
        for g in got:
            oks.append(ctx.OR(*[ctx.eq(g, l) for l in (la or []) + (lb or [])]))   # nothing invented
    if tuple(res.values.shape) != tuple(len(g) for g in rl):
        return False
    vals = ctx.flat(res.values.tolist()) if exp_dims else [res.values.tolist()]
    for k, pos in enumerate(itertools.product(*[range(len(g)) for g in rl])):
        def lookup(r):
            p = []
            for d, l in zip(r.dims, r.labels):
                g = rl[exp_dims.index(d)][pos[exp_dims.index(d)]]
                i = find(l, g)
                if i is None:
                    return None
                p.append(i)
            return r.at(p)
        x = lookup(ra)
        y = lookup(rb)
        if x is None or y is None:
            oks.append(ctx.isnan(vals[k]))
        else:
            oks.append(ctx.eq(vals[k], cell_op(ctx, op, x, y)))
    return ctx.AND(*oks)


def _derive(ctx, a, ra, how, tag):
    """an operand that is itself the result of earlier operations on a (cache-primed) array: reordered by a list of labels or of
    positions, reversed by a slice, or transposed twice - with the reference re-arranged alike"""
    for ax in a.axes:
        ax.is_monotonic()
    n = ra.shape[0]
    perms = list(itertools.permutations(range(n)))
    p = list(perms[ctx.choice('perm' + tag, len(perms))])
    l0 = ra.labels[0]
    if how == 'take-labels':
        b = a.take([l0[i] for i in p], axis=0)
    elif how == 'ix-list':
        b = a.ix[p]
    elif how == 'reverse-slice':
        p = list(reversed(range(n)))
        b = a.ix[::-1]
    elif how == 'sort':
        b = a.take([l0[i] for i in p], axis=0).sort_axis(axis=0)
        order = sorted(range(n), key=lambda i: l0[i]) if all(isinstance(x, (int, float)) for x in l0) else None
        if order is None:
            from props.C07 import sorted_positions
            order = sorted_positions(l0)
        p = order
    else:
        raise ValueError(how)
    sel = [list(p)] + [list(range(m)) for m in ra.shape[1:]]
    return b, ra.select(sel)


def binop(ctx, adims, asizes, bdims, bsizes, op='add', lk=None, dkind='f', prime=False, derive=None, same_labels=False):
    lk = lk or {}
    a, ra = mk_operand(ctx, 'a', adims, asizes, [lk.get('a:' + d, lk.get(d, 'i')) for d in adims], dkind)
    b, rb = mk_operand(ctx, 'b', bdims, bsizes, [lk.get('b:' + d, lk.get(d, 'i')) for d in bdims], dkind,
                       reuse=dict(zip(ra.dims, ra.labels)) if same_labels else None)
    if op in ('div', 'floordiv'):
        for c in rb.cells:
            ctx.assume(c != 0)
    if op == 'pow':     # IEEE special cases nan ** 0 == 1 and 1 ** nan == 1 are outside the claim
        for c in rb.cells:
            ctx.assume(c != 0)
        for c in ra.cells:
            ctx.assume(c != 1)
    if prime:
        for o in (a, b):
            for ax in o.axes:
                ax.is_monotonic()
    if derive:
        which, how = derive.split(':')
        if 'a' in which:
            a, ra = _derive(ctx, a, ra, how, 'a')
        if 'b' in which:
            b, rb = _derive(ctx, b, rb, how, 'b')
    r = ctx.call(lambda: OPS[op](a, b))
    if r[0] != 'ok':
        return ctx.done(False, r[1])
    return ctx.done(check_result(ctx, r[1], ra, rb, op), ctx.observe(r[1]))


def scalar_op(ctx, dims, sizes, op, reflect, skind='f', dkind='f', other='scalar'):
    a, ra = mk_operand(ctx, 'a', dims, sizes, ['U' if i % 2 else 'i' for i in range(len(dims))], dkind)
    if other == 'scalar':
        s = ctx.real('s') if skind == 'f' else ctx.int('s')
        svals = [s] * len(ra.cells)
        operand = s
    elif other in ('ndarray', 'list', 'ndarray-row'):
        svals = ctx.cells(skind, len(ra.cells), 'w')
        operand = ctx.nparray(svals, sizes, kind=skind)
        if other == 'list':
            operand = operand.tolist()
        elif other == 'ndarray-row':         # NumPy broadcasting of a trailing-dimension row
            row = svals[:sizes[-1]]
            svals = row * (len(ra.cells) // sizes[-1])
            operand = ctx.nparray(row, kind=skind)
    else:   # 0-d DimArray
        s = ctx.real('s')
        svals = [s] * len(ra.cells)
        operand = ctx.da.DimArray(ctx.np.array(s))
    if op in ('div', 'floordiv'):
        for c in (ra.cells if reflect else svals):
            ctx.assume(c != 0)
    if reflect:
        r = ctx.call(lambda: OPS[op](operand, a))
        exp = [cell_op(ctx, op, y, x) for x, y in zip(ra.cells, svals)]
    else:
        r = ctx.call(lambda: OPS[op](a, operand))
        exp = [cell_op(ctx, op, x, y) for x, y in zip(ra.cells, svals)]
    if r[0] != 'ok':
        return ctx.done(False, r[1])
    return ctx.done(same(ctx, r[1], Ref(ra.dims, ra.labels, exp)), ctx.observe(r[1]))


def templates():
    ts = []

    def add(name, fn, tier='quick', cost=1.0, **params):
        ts.append({'name': name, 'fn': fn, 'params': params, 'tier': tier, 'cost': cost})
    pc = {(1, 1): 0.05, (1, 2): 0.1, (2, 1): 0.1, (2, 2): 1, (1, 3): 0.3, (3, 1): 0.3, (2, 3): 8, (3, 2): 8, (3, 3): 60}
    # one shared dimension, all label kinds and sizes, all operators
    for lk in 'ifU':
        for (na, nb), c in sorted(pc.items()):
            for op in ('add', 'sub', 'mul', 'div', 'floordiv', 'pow'):
                if op != 'add' and (na, nb) not in ((2, 2), (1, 2)):
                    continue
                if lk != 'i' and (na, nb) in ((3, 3),):
                    continue
                tier = 'quick' if c <= 8 and not (c == 8 and lk != 'i') else 'thorough'
                add('1d-%s-%dx%d-%s' % (lk, na, nb, op), 'binop', tier, c, adims=['x'], asizes=[na], bdims=['x'], bsizes=[nb], op=op, lk={'x': lk})
    # int axis meets real axis
    add('1d-int-vs-real', 'binop', cost=1, adims=['x'], asizes=[2], bdims=['x'], bsizes=[2], lk={'a:x': 'i', 'b:x': 'f'})
    add('1d-real-vs-int', 'binop', cost=1, adims=['x'], asizes=[2], bdims=['x'], bsizes=[2], lk={'a:x': 'f', 'b:x': 'i'})
    add('1d-int-data', 'binop', cost=1, adims=['x'], asizes=[2], bdims=['x'], bsizes=[2], dkind='i')
    add('1d-primed', 'binop', cost=1, adims=['x'], asizes=[2], bdims=['x'], bsizes=[2], prime=True, op='sub')
    # three (four) shared dimensions stored in orders that differ by a rotation (not its own inverse); same labels: broadcasting by name only
    for k, (ad, bd) in enumerate(((['x', 'y', 'z'], ['y', 'z', 'x']), (['x', 'y', 'z'], ['z', 'x', 'y']), (['x', 'y', 'z'], ['z', 'y', 'x']),
                                  (['x', 'y', 'z', 'w'], ['w', 'x', 'y', 'z']), (['y', 'x'], ['z', 'x', 'y']))):
        for sizes in ([2, 2, 2, 2], [2, 3, 2, 3]):
            sz = dict(zip(['x', 'y', 'z', 'w'], sizes))
            add('rotated-dims-%d-%s' % (k, 'x'.join(map(str, sizes[:len(ad)]))), 'binop', cost=1.5, adims=ad, asizes=[sz[d] for d in ad], bdims=bd, bsizes=[sz[d] for d in bd],
                op='sub', same_labels=True)
    # a dimension of length 1 that only one operand has (its single label must survive), both operand orders, 0-d partner
    for k, (ad, asz, bd, bsz) in enumerate(((['x'], [2], ['x', 'z'], [2, 1]), (['x', 'z'], [2, 1], ['x'], [2]), ([], [], ['z'], [1]), (['z'], [1], [], []),
                                            (['x'], [1], ['y'], [1]), (['y', 'x'], [1, 2], ['z', 'x'], [1, 2]), (['x'], [2], ['z', 'x'], [1, 2]))):
        add('single-label-new-dim-%d' % k, 'binop', cost=1.5, adims=ad, asizes=asz, bdims=bd, bsizes=bsz, op='sub', lk={'z': 'i'})
    # operands that are results of earlier operations on cache-primed arrays (reordered by list indexing, reversed, re-sorted)
    for how in ('take-labels', 'ix-list', 'reverse-slice', 'sort'):
        for which in ('a', 'b', 'ab'):
            quick = which == 'a' or (which == 'b' and how == 'reverse-slice')
            add('1d-derived-%s-%s' % (which, how), 'binop', 'quick' if quick else 'thorough', cost=8 if which != 'ab' else 60, adims=['x'], asizes=[3], bdims=['x'], bsizes=[2], op='sub',
                derive='%s:%s' % (which, how), lk={'x': 'i' if how != 'sort' else 'f'})
    add('2d-derived-a-take-labels', 'binop', 'thorough', cost=30, adims=['x', 'y'], asizes=[3, 2], bdims=['x'], bsizes=[2], op='add', derive='a:take-labels')
    add('1d-primed-3x2', 'binop', cost=8, adims=['x'], asizes=[3], bdims=['x'], bsizes=[2], prime=True, op='sub')
    # dimension overlap patterns and orders (pool x, y, z)
    pool = ['x', 'y', 'z']
    seen = set()
    for na in (0, 1, 2):
        for ad in itertools.permutations(pool, na):
            for nb in (0, 1, 2):
                for bd in itertools.permutations(pool, nb):
                    shared = [d for d in ad if d in bd]
                    key = (ad, bd)
                    if key in seen:
                        continue
                    seen.add(key)
                    if len(shared) > 1:
                        sizes = {'x': (2, 2), 'y': (2, 1), 'z': (1, 2)}
                        cost = 3
                    else:
                        sizes = {'x': (2, 2), 'y': (2, 2), 'z': (2, 2)}
                        cost = 1.5 if shared else 0.2
                    # canonical subset in quick: a's dims sorted; the rest thorough
                    quick = list(ad) == sorted(ad) or (len(ad) == 2 and len(bd) == 2 and len(shared) == 2)
                    add('dims-%s-%s' % (''.join(ad) or '0', ''.join(bd) or '0'), 'binop', 'quick' if quick else 'thorough', cost,
                        adims=list(ad), asizes=[sizes[d][0] for d in ad], bdims=list(bd), bsizes=[sizes[d][1] for d in bd],
                        op='sub', lk={'y': 'U', 'z': 'f'})
    # 3-D with a transposed partner, square shapes (positional mix-ups are shape compatible)
    add('3d-xyz-zyx', 'binop', 'thorough', cost=45, adims=['x', 'y', 'z'], asizes=[2, 2, 2], bdims=['z', 'y', 'x'], bsizes=[1, 2, 1], op='sub', lk={'y': 'U'})
    add('3d-xyz-yx', 'binop', 'thorough', cost=40, adims=['x', 'y', 'z'], asizes=[2, 2, 1], bdims=['y', 'x'], bsizes=[2, 2], op='sub')
    add('2d-xy-yx-2x2', 'binop', 'thorough', cost=50, adims=['x', 'y'], asizes=[2, 2], bdims=['y', 'x'], bsizes=[2, 2], op='sub')
    add('4d', 'binop', 'thorough', cost=30, adims=['x', 'y', 'z', 'w'], asizes=[2, 1, 2, 1], bdims=['w', 'x'], bsizes=[2, 2], op='div')
    # scalar / ndarray / 0-d operands
    for op in OPS:
        for reflect in (False, True):
            add('scalar-%s-%s' % (op, reflect), 'scalar_op', cost=0.2, dims=['x', 'y'], sizes=[2, 2], op=op, reflect=reflect)
        add('scalar-int-%s' % op, 'scalar_op', cost=0.2, dims=['x'], sizes=[3], op=op, reflect=(op in ('sub', 'div')), skind='i', dkind='i')
        add('ndarray-%s' % op, 'scalar_op', cost=0.2, dims=['x', 'y'], sizes=[2, 3], op=op, reflect=False, other='ndarray')
        # int / bool data meets a real ndarray / list (NumPy's promotion, nothing truncated), and the reverse
        for dk, sk in (('i', 'f'), ('f', 'i'), ('b', 'f')):
            if dk == 'b' and op in ('sub', 'floordiv', 'pow', 'div'):
                continue
            for other in ('ndarray', 'list', 'ndarray-row'):
                add('%s-%s-data-%s-operand-%s' % (other, op, dk, sk), 'scalar_op', cost=0.3, dims=['x', 'y'], sizes=[2, 2], op=op, reflect=False, other=other, skind=sk, dkind=dk)
        add('scalar-%s-int-data-real-scalar' % op, 'scalar_op', cost=0.2, dims=['x'], sizes=[2], op=op, reflect=False, skind='f', dkind='i')
        add('scalar-%s-int-data-real-scalar-r' % op, 'scalar_op', cost=0.2, dims=['x'], sizes=[2], op=op, reflect=True, skind='f', dkind='i')
        add('0d-%s' % op, 'scalar_op', cost=0.2, dims=['x', 'y'], sizes=[2, 2], op=op, reflect=(op in ('sub', 'pow')), other='0d')
    return ts
