"""C19 - serialisation round-trips: the JSON half (netCDF half not applicable: netCDF4 is not installed)."""
import itertools
from vlib.ctx import Ref, same
from props.C01 import DIMS
from props.C10 import LK

EXPLANATION = ("from_json(to_json(a)) / from_jsondict(to_jsondict(a)) through the real DimArray.to_jsondict / to_json / from_jsondict / "
               "from_json and the constructor, with symbolic labels, data (symbolic NaN pattern) and metadata values; json.dumps / "
               "json.loads are replaced, in the symbolic run only, by a lossless channel stub (identity on lists / str / int / float / NaN / "
               "bool / None / str-keyed dicts, tuples become lists, TypeError for anything else) so that symbolic cells pass through; the "
               "real-stack replays use the real json module")
ASSUMPTIONS = ["json channel stub as described (the real json module is used in every real-stack replay)", "labels on an axis are pairwise distinct",
               "netCDF half of the property (write_nc / read_nc) is not decided: netCDF4 is not installed"]
BOUNDS = {'quick': {'nd': '0..3', 'sizes': '0..3'}, 'thorough': {'nd': '0..3', 'sizes': '0..3'}}
DEADLINE = {'quick': 120, 'thorough': 600}


class _Channel(object):
    """lossless JSON channel for symbolic cells"""

    def __init__(self, symx):
        self.symx = symx
        self.store = {}

    def norm(self, o):
        S = self.symx
        if isinstance(o, dict):
            out = {}
            for k, v in o.items():
                if not isinstance(k, (str, int, float, bool)) and k is not None:
                    raise TypeError("keys must be str, int, float, bool or None, not %s" % type(k).__name__)
                out[k if isinstance(k, str) else str(k)] = self.norm(v)
            return out
        if isinstance(o, (list, tuple)):
            return [self.norm(v) for v in o]
        if o is None or isinstance(o, (str, int, float, bool)):
            return o
        if isinstance(o, S.Sym):
            return o
        raise TypeError("Object of type %s is not JSON serializable" % type(o).__name__)

    def dumps(self, obj, **kw):
        n = self.norm(obj)
        tok = "JSON#%d" % len(self.store)
        self.store[tok] = n
        return tok

    def loads(self, s, **kw):
        return self.norm(self.store[s])       # a fresh copy


class NotJson(object):
    def __repr__(self):
        return "<not json>"


def roundtrip(ctx, shape, lkinds, dkind='f', via='json', dims=None, meta='mixed', nan=True, layout=None):
    import json
    nd = len(shape)
    dims = dims or DIMS[:nd]
    labels = [ctx.labels(k, n, 'l%s_' % d) for d, n, k in zip(dims, shape, lkinds)]
    ncell = 1
    for n in shape:
        ncell *= n
    if dkind == 'U':
        cells = [ctx.rank('s%d' % i) for i in range(ncell)]
    else:
        cells = ctx.cells(dkind, ncell, 'v', nan=(nan and dkind == 'f'))
    if nd == 0:
        a = ctx.da.DimArray(ctx.np.array(cells[0]))
    else:
        a = ctx.mk(dims, labels, cells, lkinds=lkinds, kind=dkind if dkind != 'U' else 'O', register=False, layout=layout if layout != 'T' else None)
        if layout == 'T':
            # the written array is a transposed view of another one
            a = a.transpose(list(reversed(dims)))
            dims = list(reversed(dims))
            labels = list(reversed(labels))
            cells = Ref(list(reversed(dims)), list(reversed(labels)), cells).transpose(list(reversed(range(nd)))).cells
    u = ctx.real('m_units')
    k = ctx.int('m_count')
    if meta == 'mixed':
        attrs = {'units': u, 'count': k, 'name': 'temperature', 'hist': [1, [2, 'b']], 'flag': True, 'none': None, 'nested': {'a': 1, 'b': [u]}}
        bad = {'obj': NotJson(), 'aset': set([1])}
    elif meta == 'none':
        attrs, bad = {}, {}
    else:
        attrs, bad = {'units': u}, {'obj': NotJson()}
    a.attrs.update(attrs)
    a.attrs.update(bad)
    attr_ids = dict((kk, id(v)) for kk, v in a.attrs.items())
    saved = (json.dumps, json.loads)
    if ctx.sym:
        ch = _Channel(ctx.symx)
        json.dumps, json.loads = ch.dumps, ch.loads
    try:
        if via == 'json':
            r = ctx.call(lambda: ctx.da.DimArray.from_json(a.to_json()))
        elif via == 'jsondict':
            r = ctx.call(lambda: ctx.da.DimArray.from_jsondict(a.to_jsondict()))
        else:   # through the text form of the dict
            r = ctx.call(lambda: ctx.da.DimArray.from_jsondict(json.loads(json.dumps(a.to_jsondict()))))
    finally:
        json.dumps, json.loads = saved
    if r[0] != 'ok':
        return ctx.done(False, r[1], inplace=True)
    b = r[1]
    ref = Ref(dims, labels, cells)
    oks = []
    if nd == 0:
        oks.append(isinstance(b, ctx.da.DimArray) and b.values.ndim == 0 and ctx.eq(b.values.tolist(), cells[0]))
    else:
        oks.append(same(ctx, b, ref))
    # JSON-representable metadata restored (tuples / nested containers compared by value), the rest dropped
    for kk, v in attrs.items():
        oks.append(kk in b.attrs and _meta_eq(ctx, b.attrs[kk], v))
    for kk in bad:
        oks.append(kk not in b.attrs)
    # writing never changes the in-memory object
    if nd:
        oks.append(same(ctx, a, ref))
    oks.append(set(a.attrs.keys()) == set(attrs) | set(bad))
    oks.append(all(id(a.attrs[kk]) == attr_ids[kk] for kk in a.attrs))
    oks.append(b.attrs is not a.attrs)
    return ctx.done(ctx.AND(*oks), [ctx.observe(b), sorted(b.attrs.keys())], inplace=True)


def _meta_eq(ctx, x, y):
    if isinstance(y, dict):
        return isinstance(x, dict) and set(x) == set(y) and ctx.AND(*[_meta_eq(ctx, x[k], y[k]) for k in y])
    if isinstance(y, (list, tuple)):
        return isinstance(x, (list, tuple)) and len(x) == len(y) and ctx.AND(*[_meta_eq(ctx, a, b) for a, b in zip(x, y)])
    if y is None or isinstance(y, (bool, str)):
        return x == y and type(x) is type(y)
    return ctx.eq(x, y)


def jsondict_shape(ctx):
    """to_jsondict documents values / dims / labels / shape / ndim / meta"""
    a = ctx.mk(['x', 'y'], [ctx.labels('i', 2, 'lx'), ctx.labels('U', 3, 'ly')], ctx.cells('f', 6, 'v'), lkinds=['i', 'U'], attrs={'units': 'K'})
    d = a.to_jsondict()
    ok = ctx.AND(d['dims'] == ['x', 'y'], d['shape'] == [2, 3], d['ndim'] == 2, d['meta'] == {'units': 'K'}, d['meta'] is not a.attrs,
                 ctx.eqlist(ctx.flat(d['values']), ctx.flat(a.values.tolist())), ctx.eqlist(d['labels'][0], a.axes[0].values.tolist()),
                 ctx.eqlist(d['labels'][1], a.axes[1].values.tolist()))
    return ctx.done(ok, sorted(d.keys()))


def special_values(ctx, via):
    """non-finite floats in values, labels and metadata survive the text form"""
    inf = float('inf')
    vals = [1.5, inf, -inf, float('nan')]
    labels = [[-inf, 0.5]] + [[1, 2]]
    a = ctx.mk(['x', 'y'], labels, vals, lkinds=['f', 'i'], attrs={'lo': -inf, 'hi': inf, 'nn': float('nan'), 'name': 'n'})
    if via == 'json':
        r = ctx.call(lambda: ctx.da.DimArray.from_json(a.to_json()))
    else:
        r = ctx.call(lambda: ctx.da.DimArray.from_jsondict(a.to_jsondict()))
    if r[0] != 'ok':
        return ctx.done(False, r[1])
    b = r[1]
    ok = ctx.AND(same(ctx, b, Ref(['x', 'y'], labels, vals)), b.attrs.get('lo') == -inf, b.attrs.get('hi') == inf, ctx.isnan(b.attrs.get('nn')), b.attrs.get('name') == 'n')
    return ctx.done(ok, ctx.observe(b))


def jsondict_reuse(ctx):
    """the dict returned by to_jsondict can be read more than once (from_jsondict does not consume it)"""
    labels = [ctx.labels('i', 2, 'lx'), ctx.labels('U', 2, 'ly')]
    cells = ctx.cells('f', 4, 'v')
    a = ctx.mk(['x', 'y'], labels, cells, lkinds=['i', 'U'], attrs={'units': 'K'})
    d = a.to_jsondict()
    keys = sorted(d.keys())
    b1 = ctx.call(lambda: ctx.da.DimArray.from_jsondict(d))
    if b1[0] == 'ok':
        # editing the metadata of a restored array does not reach the dictionary it was read from, nor later readers
        b1[1].attrs['units'] = 'edited'
        b1[1].attrs['extra'] = 1
        b1[1].attrs['units'] = 'K'
        del b1[1].attrs['extra']
        b1[1].attrs['added-then-kept'] = 2
    b2 = ctx.call(lambda: ctx.da.DimArray.from_jsondict(d))
    ref = Ref(['x', 'y'], labels, cells)
    ok = ctx.AND(b1[0] == 'ok' and same(ctx, b1[1], ref), b2[0] == 'ok' and same(ctx, b2[1], ref), sorted(d.keys()) == keys,
                 b1[0] == 'ok' and b1[1].attrs.get('units') == 'K' and b2[0] == 'ok' and b2[1].attrs.get('units') == 'K',
                 b2[0] == 'ok' and 'added-then-kept' not in b2[1].attrs and d['meta'] == {'units': 'K'} and a.attrs == {'units': 'K'})
    return ctx.done(ok, [keys, sorted(d.keys())])


def text_options(ctx, opts):
    """formatting options of to_json (passed to json.dumps) never change the content; strings with blanks and brackets are data.
    (The symbolic run uses the channel stub, which ignores formatting; this template is decided by its real-stack replay.)"""
    labels = [['New York', 'a [b c] d'], [10, 20]]
    vals = ['x y', '[1, 2]', 'p  q', '']
    a = ctx.mk(['city name', 'n'], labels, vals, lkinds=['U', 'i'], kind='O', attrs={'note': 'two  blanks [ and ] brackets', 'tags': ['a b', 'c']})
    r = ctx.call(lambda: ctx.da.DimArray.from_json(a.to_json(**opts)))
    if r[0] != 'ok':
        return ctx.done(False, r[1])
    b = r[1]
    ok = ctx.AND(same(ctx, b, Ref(['city name', 'n'], labels, vals)), b.attrs.get('note') == 'two  blanks [ and ] brackets', b.attrs.get('tags') == ['a b', 'c'])
    return ctx.done(ok, ctx.observe(b))


def flattened(ctx, shape, group, via):
    """an array with a grouped axis (result of flatten): its tuple labels, written as lists of lists, come back as the same
    tuples in the same order"""
    import json
    nd = len(shape)
    dims = DIMS[:nd]
    lkinds = ['i', 'U', 'f'][:nd]
    labels = [ctx.labels(k, n, 'l%s_' % d) for d, n, k in zip(dims, shape, lkinds)]
    ncell = 1
    for n in shape:
        ncell *= n
    cells = ctx.cells('f', ncell, 'v')
    a = ctx.mk(dims, labels, cells, lkinds=lkinds, register=False)
    f = a.flatten() if group is None else a.flatten([dims[i] for i in group])
    fdims = tuple(f.dims)
    flabels = [ax.values.tolist() for ax in f.axes]
    fvals = ctx.flat(f.values.tolist())
    saved = (json.dumps, json.loads)
    if ctx.sym:
        ch = _Channel(ctx.symx)
        json.dumps, json.loads = ch.dumps, ch.loads
    try:
        if via == 'json':
            r = ctx.call(lambda: ctx.da.DimArray.from_json(f.to_json()))
        else:
            r = ctx.call(lambda: ctx.da.DimArray.from_jsondict(f.to_jsondict()))
    finally:
        json.dumps, json.loads = saved
    if r[0] != 'ok':
        return ctx.done(False, r[1], inplace=True)
    b = r[1]
    if tuple(b.dims) != fdims or tuple(b.values.shape) != tuple(f.values.shape):
        return ctx.done(False, ctx.observe(b), inplace=True)
    oks = [ctx.eqlist(ctx.flat(b.values.tolist()), fvals)]
    for ax, exp in zip(b.axes, flabels):
        got = ax.values.tolist()
        oks.append(len(got) == len(exp))
        for g, e in zip(got, exp):
            if isinstance(e, (tuple, list)):
                oks.append(isinstance(g, (tuple, list)) and len(g) == len(e) and ctx.AND(*[ctx.eq(x, y) for x, y in zip(g, e)]))
            else:
                oks.append(ctx.eq(g, e))
    return ctx.done(ctx.AND(*oks), ctx.observe(b), inplace=True)


def bytes_input(ctx, ensure_ascii):
    """from_json accepts the UTF-8 encoded text as well (decided by its real-stack replay: the symbolic run uses the channel stub)"""
    labels = [['Z\u00fcrich', 'K\u00f8benhavn'], [10, 20]]
    vals = ['\u00e9t\u00e9', 'a', '\u65e5\u672c', '']
    a = ctx.mk(['ville', 'n'], labels, vals, lkinds=['U', 'i'], kind='O', attrs={'note': 'caf\u00e9', 'tags': ['\u00fc', 'c']})
    def f():
        s = a.to_json(ensure_ascii=ensure_ascii)
        return ctx.da.DimArray.from_json(s.encode('utf-8') if isinstance(s, str) and not s.startswith('JSON#') else s)
    r = ctx.call(f)
    if r[0] != 'ok':
        return ctx.done(False, r[1])
    b = r[1]
    ok = ctx.AND(same(ctx, b, Ref(['ville', 'n'], labels, vals)), b.attrs.get('note') == 'caf\u00e9', b.attrs.get('tags') == ['\u00fc', 'c'])
    return ctx.done(ok, ctx.observe(b))


def two_writes(ctx, via):
    """state left by an earlier write: an array written after another one comes back with its own metadata only"""
    import json
    l1 = ctx.labels('i', 2, 'la')
    l2 = ctx.labels('i', 2, 'lb')
    a = ctx.mk(['x'], [l1], ctx.cells('f', 2, 'va'), attrs={'units': 'K', 'note': 'first', 'scale': 2})
    b = ctx.mk(['x'], [l2], ctx.cells('f', 2, 'vb'), attrs={'units': 'm'})
    c = ctx.mk(['x'], [l2], ctx.cells('f', 2, 'vc'))
    saved = (json.dumps, json.loads)
    if ctx.sym:
        ch = _Channel(ctx.symx)
        json.dumps, json.loads = ch.dumps, ch.loads
    try:
        def rt(x):
            if via == 'json':
                return ctx.da.DimArray.from_json(x.to_json())
            return ctx.da.DimArray.from_jsondict(x.to_jsondict())
        r = ctx.call(lambda: [rt(a), rt(b), rt(c), rt(a)])
    finally:
        json.dumps, json.loads = saved
    if r[0] != 'ok':
        return ctx.done(False, r[1])
    ra, rb, rc, ra2 = r[1]
    ok = ctx.AND(dict(ra.attrs) == {'units': 'K', 'note': 'first', 'scale': 2}, dict(rb.attrs) == {'units': 'm'}, dict(rc.attrs) == {},
                 dict(ra2.attrs) == {'units': 'K', 'note': 'first', 'scale': 2}, ra.attrs is not ra2.attrs)
    # editing a restored array's metadata does not reach the others
    ra.attrs['units'] = 'changed'
    rb.attrs['extra'] = 1
    ok = ctx.AND(ok, ra2.attrs.get('units') == 'K', 'extra' not in rc.attrs, a.attrs.get('units') == 'K')
    return ctx.done(ok, [sorted(rb.attrs.keys()), sorted(rc.attrs.keys())])


def numeric_strings(ctx, via, nd):
    """str data / str labels that look like numbers stay strings (decided by its real-stack replay: concrete text)"""
    if nd == 0:
        a = ctx.da.DimArray(ctx.np.array('42'))
        exp = None
    else:
        labels = [['1', '2.5', 'nan'], [10, 20]][:nd]
        vals = ['007', '1e3', 'nan', '42', '-0', 'inf'][:3 * (2 if nd == 2 else 1)]
        a = ctx.mk(['s', 'n'][:nd], labels, vals, lkinds=['U', 'i'][:nd], kind='O', register=False)
        exp = Ref(['s', 'n'][:nd], labels, vals)
    if via == 'json':
        r = ctx.call(lambda: ctx.da.DimArray.from_json(a.to_json()))
    else:
        r = ctx.call(lambda: ctx.da.DimArray.from_jsondict(a.to_jsondict()))
    if r[0] != 'ok':
        return ctx.done(False, r[1], inplace=True)
    b = r[1]
    if nd == 0:
        ok = b.values.ndim == 0 and b.values.tolist() == '42'
    else:
        ok = ctx.AND(same(ctx, b, exp), all(isinstance(x, str) for x in ctx.flat(b.values.tolist())), all(isinstance(x, str) for x in b.axes[0].values.tolist()))
    return ctx.done(ok, ctx.observe(b), inplace=True)


def templates():
    ts = []

    def add(name, fn, tier='quick', cost=1.0, **params):
        ts.append({'name': name, 'fn': fn, 'params': params, 'tier': tier, 'cost': cost})
    cases = [([], []), ([1], ['i']), ([3], ['i']), ([3], ['f']), ([3], ['U']), ([0], ['i']), ([2, 2], ['i', 'U']), ([2, 1], ['f', 'i']), ([1, 2, 2], ['U', 'i', 'f']), ([2, 0], ['i', 'f'])]
    for shape, lks in cases:
        for dk in 'fiUb':
            for via in ('json', 'jsondict', 'text'):
                if dk != 'f' and via == 'text':
                    continue
                ncell = 1
                for n in shape:
                    ncell *= n
                add('rt-%s-%s-%s-%s' % ('x'.join(map(str, shape)) or '0d', ''.join(lks), dk, via), 'roundtrip', cost=0.05 * 2 ** (ncell if dk == 'f' else 0),
                    shape=shape, lkinds=lks, dkind=dk, via=via)
    # the value buffer is column-major / a strided view / a transposed view (all data kinds; str data are stored as objects)
    for layout in ('F', 'strided', 'T'):
        for dk in 'fiU':
            for via in ('json', 'jsondict'):
                add('rt-layout-%s-%s-%s' % (layout, dk, via), 'roundtrip', cost=0.3, shape=[2, 3], lkinds=['i', 'U'], dkind=dk, via=via, layout=layout, nan=False)
        add('rt-layout-%s-3d' % layout, 'roundtrip', cost=0.5, shape=[2, 1, 2], lkinds=['i', 'f', 'U'], dkind='U', layout=layout)
    add('rt-meta-none', 'roundtrip', cost=0.2, shape=[2], lkinds=['i'], meta='none')
    add('rt-meta-one', 'roundtrip', cost=0.2, shape=[2], lkinds=['i'], meta='one')
    # dimension names that are also names of class members
    for dims in (['values', 'x'], ['T', 'size'], ['mean', 'axes'], ['dims', 'labels'], ['item', 'loc']):
        add('rt-dims-%s' % '-'.join(dims), 'roundtrip', cost=0.2, shape=[2, 2], lkinds=['i', 'i'], dims=dims, nan=False)
    for shape, group in (([1, 2], None), ([2, 1], None), ([2, 2], None), ([2, 3], None), ([1, 3, 1], None), ([2, 2, 2], [0, 2]), ([2, 3, 2], [2, 1]), ([1, 1], None), ([3, 3, 3], None)):
        for via in ('json', 'jsondict'):
            add('flattened-%s-%s-%s' % ('x'.join(map(str, shape)), 'all' if group is None else ''.join(map(str, group)), via), 'flattened',
                'quick' if shape != [3, 3, 3] else 'thorough', cost=0.5, shape=shape, group=group, via=via)
    for ea in (True, False):
        add('bytes-input-%s' % ea, 'bytes_input', cost=0.1, ensure_ascii=ea)
    for via in ('json', 'jsondict'):
        add('two-writes-%s' % via, 'two_writes', cost=0.2, via=via)
    for via in ('json', 'jsondict'):
        for nd in (0, 1, 2):
            add('numeric-strings-%s-%dd' % (via, nd), 'numeric_strings', cost=0.1, via=via, nd=nd)
    add('jsondict-shape', 'jsondict_shape', cost=0.2)
    for via in ('json', 'jsondict'):
        add('special-values-%s' % via, 'special_values', cost=0.2, via=via)
    add('jsondict-reuse', 'jsondict_reuse', cost=0.2)
    for k, opts in enumerate(({}, {'indent': 2}, {'indent': 0}, {'sort_keys': True}, {'indent': 4, 'sort_keys': True}, {'separators': (', ', ': ')}, {'indent': 1, 'separators': (',', ':')})):
        add('text-options-%d' % k, 'text_options', cost=0.2, opts=opts)
    return ts
