#!/venv/bin/python
"""Model conformance: randomised concrete calls of every modelled numpy function, real NumPy vs symnp.
Usage: /venv/bin/python conformance.py [--seed N] [--rounds N]   (exit 0 = no disagreement)"""
import sys, os, random, math, importlib.util, warnings, itertools
HERE = os.path.dirname(os.path.abspath(__file__))
sys.path[:0] = [HERE, os.path.join(HERE, '.deps')]
warnings.simplefilter('ignore')
import numpy as rnp


def load_model():
    p = os.path.join(HERE, 'symnp', 'numpy')
    spec = importlib.util.spec_from_file_location('symnp_model', os.path.join(p, '__init__.py'), submodule_search_locations=[p])
    mod = importlib.util.module_from_spec(spec)
    sys.modules['symnp_model'] = mod
    spec.loader.exec_module(mod)
    return mod


mnp = load_model()


def norm(x, np_):
    if isinstance(x, tuple):
        return ('tuple',) + tuple(norm(e, np_) for e in x)
    if isinstance(x, list):
        return ('list',) + tuple(norm(e, np_) for e in x)
    if isinstance(x, np_.ndarray):
        k = x.dtype.kind
        if k in 'US':
            k = 'U'
        if k == 'u':
            k = 'i'
        return ('arr', tuple(x.shape), k, x.tolist())
    if np_ is rnp and isinstance(x, rnp.ma.MaskedArray):
        return ('ma', norm(rnp.asarray(x.filled(0) if x.dtype.kind != 'b' else x.filled(True)), np_), rnp.ma.getmaskarray(x).tolist())
    if np_ is rnp and isinstance(x, rnp.generic):
        return ('scalar', x.item())
    if np_ is mnp and isinstance(x, mnp.ma.MaskedArray):
        return ('ma', norm(x.filled(0 if x.dtype.kind != 'b' else True), np_), x.mask.tolist())
    if isinstance(x, (int, float, bool, str)) or x is None:
        return ('scalar', x)
    return ('other', type(x).__name__)


def close(a, b):
    if isinstance(a, float) or isinstance(b, float):
        if not isinstance(a, (int, float)) or not isinstance(b, (int, float)):
            return False
        if isinstance(a, bool) != isinstance(b, bool):
            return False
        if a != a or b != b:
            return a != a and b != b
        if a in (math.inf, -math.inf) or b in (math.inf, -math.inf):
            return a == b
        return abs(a - b) <= 1e-9 * max(1.0, abs(a), abs(b))
    if isinstance(a, (list, tuple)) and isinstance(b, (list, tuple)):
        return len(a) == len(b) and all(close(x, y) for x, y in zip(a, b))
    if isinstance(a, bool) != isinstance(b, bool):
        return False
    return a == b


EXC = (IndexError, ValueError, TypeError, AttributeError, ZeroDivisionError, OverflowError)


def run(f, np_):
    try:
        return ('ok', norm(f(np_), np_))
    except EXC as e:
        for c in EXC:
            if isinstance(e, c):
                return ('exc', c.__name__)
    except Exception as e:
        if type(e).__name__ == 'ModelGap':
            return ('gap', str(e))
        return ('exc', type(e).__name__)


class G(object):
    def __init__(self, rng):
        self.r = rng

    def ints(self, n, lo=-4, hi=6):
        return [self.r.randint(lo, hi) for _ in range(n)]

    def uints(self, n):
        return self.r.sample(range(-6, 9), n)

    def floats(self, n, nanp=0.0):
        return [float('nan') if self.r.random() < nanp else self.r.choice([-2.5, -1.0, 0.0, 0.5, 1.0, 1.5, 2.0, 3.25, 7.0]) for _ in range(n)]

    def ufloats(self, n):
        return self.r.sample([-2.5, -1.0, 0.0, 0.5, 1.0, 1.5, 2.0, 3.25, 7.0], n)

    def bools(self, n):
        return [self.r.random() < 0.5 for _ in range(n)]

    def strs(self, n):
        return self.r.sample(['a', 'b', 'c', 'd', 'e', 'f'], n)

    def shape(self, nd=None, lo=1):
        nd = nd if nd is not None else self.r.randint(1, 3)
        return tuple(self.r.randint(lo, 3) for _ in range(nd))

    def nested(self, shape, kind='f', nanp=0.0):
        n = 1
        for s in shape:
            n *= s
        flat = {'f': lambda: self.floats(n, nanp), 'i': lambda: self.ints(n), 'b': lambda: self.bools(n)}[kind]()
        def rec(sh, it):
            if not sh:
                return next(it)
            return [rec(sh[1:], it) for _ in range(sh[0])]
        return rec(shape, iter(flat))


def cases(g):
    """yield (name, f(np)) pairs for one random round"""
    r = g.r
    sh = g.shape()
    kind = r.choice('fib')
    A = g.nested(sh, kind, nanp=0.25 if kind == 'f' else 0)
    full = g.nested(sh, 'b')
    ax = r.randrange(len(sh))
    axn = r.choice([None, ax, ax - len(sh)])
    for name in ('sum', 'prod', 'min', 'max', 'mean', 'var', 'std', 'median', 'all', 'any', 'argmin', 'argmax', 'ptp',
                 'nansum', 'nanprod', 'nanmin', 'nanmax', 'nanmean', 'nanvar', 'nanstd', 'nanmedian', 'nanargmin', 'nanargmax',
                 'cumsum', 'cumprod', 'nancumsum', 'nancumprod'):
        yield 'red.%s' % name, (lambda np, name=name: getattr(np, name)(np.array(A), axis=axn))
    for name in ('sum', 'prod', 'min', 'max', 'mean', 'var', 'std', 'all', 'any', 'argmin', 'argmax', 'cumsum', 'cumprod'):
        yield 'meth.%s' % name, (lambda np, name=name: getattr(np.array(A), name)(axis=axn))
    q = r.choice([50, 25, [10, 50], [0, 100, 33.3]])
    yield 'percentile', lambda np: np.percentile(np.array(A, dtype=float), q, axis=axn)
    yield 'nanpercentile', lambda np: np.nanpercentile(np.array(A, dtype=float), q, axis=axn)
    # masked
    Af = g.nested(sh, 'f', nanp=0.4)
    for name in ('ptp', 'all', 'any'):
        def fm(np, name=name):
            a = np.array(Af)
            res = getattr(np.ma, name)(np.ma.array(a, mask=np.isnan(a)), axis=axn)
            if np.ma.isMaskedArray(res):
                res = res.filled(np.nan)
            return res
        yield 'ma.%s' % name, fm
    for name in ('sum', 'prod', 'mean', 'min', 'max', 'std', 'var'):
        def fm2(np, name=name, viaNp=(r.random() < 0.5)):
            a = np.array(Af)
            mm = np.ma.array(a, mask=np.isnan(a))
            res = getattr(np if viaNp else np.ma, name)(mm, axis=axn)
            if np.ma.isMaskedArray(res):
                res = res.filled(np.nan)
            return res
        yield 'ma2.%s' % name, fm2
    def fptp(np):
        a = np.array(Af)
        res = np.ptp(np.ma.array(a, mask=np.isnan(a)), axis=axn)
        return res.filled(np.nan) if np.ma.isMaskedArray(res) else res
    yield 'np.ptp(ma)', fptp
    for order in ('C', 'F', 'K', 'A'):
        yield 'ravel.%s' % order, (lambda np, order=order: (np.array(A).ravel(order=order), np.array(A).T.ravel(order=order), np.array(A).T.flatten(order=order)))
    def fput(np, which):
        x = np.array(A, dtype=float)
        mk = np.array(full)
        if which == 'putmask':
            np.putmask(x, mk, [7., 8., 9.])
        elif which == 'place':
            np.place(x, mk, [7., 8.])
        elif which == 'copyto':
            np.copyto(x, 5.0, where=mk)
        else:
            np.put(x, [0, x.size - 1], [7., 8.])
        return x
    for which in ('putmask', 'place', 'copyto', 'put'):
        yield which, (lambda np, which=which: fput(np, which))
    # binary ops
    sh2 = r.choice([sh, sh[-1:], (1,) * len(sh), ()])
    k2 = r.choice('fib')
    B = g.nested(sh2, k2, nanp=0.2 if k2 == 'f' else 0) if sh2 else r.choice([2, -1.5, True, 0])
    for name in ('add', 'subtract', 'multiply', 'true_divide', 'floor_divide', 'power', 'less', 'less_equal', 'greater', 'greater_equal', 'equal', 'not_equal'):
        yield 'bin.%s' % name, (lambda np, name=name: getattr(np, name)(np.array(A), np.array(B)))
    yield 'op.+', lambda np: np.array(A) + B
    yield 'op.r-', lambda np: 2 - np.array(A)
    yield 'op.==', lambda np: np.array(A) == B
    yield 'op.~', lambda np: ~np.array(A)
    yield 'op.neg', lambda np: -np.array(A)
    yield 'op.&', lambda np: np.array(g.nested(sh, 'b')) & np.array(g.nested(sh, 'b'))
    yield 'minimum', lambda np: np.minimum(np.array(A), B)
    yield 'maximum', lambda np: np.maximum(np.array(A), np.array(B))
    yield 'clip', lambda np: np.clip(np.array(A), -1, 2)
    def fsort(np):
        a = np.array(A)
        a.sort(axis=ax)
        b = np.array(A)
        np.median(b, axis=None if r.random() < 0.3 else ax, overwrite_input=False)
        return (a, b)
    if kind != 'b' or True:
        yield 'sort.nd.inplace', fsort
    if kind == 'f':
        def ffix(np, copy):
            a = np.array(A)
            m = np.ma.fix_invalid(a, copy=copy)
            return (a, m.data, bool(np.any(m.mask)))     # (NumPy collapses an all-False mask to the scalar nomask)
        yield 'ma.fix_invalid.copy', lambda np: ffix(np, True)
        yield 'ma.fix_invalid.nocopy', lambda np: ffix(np, False)
        def fmaview(np):
            a = np.array(A)
            m = np.ma.array(a, copy=False)
            m.data[(0,) * a.ndim] = 7.0
            return a
        yield 'ma.array.nocopy.alias', fmaview
    yield 'result_type', lambda np: (np.result_type(np.array(A), np.array(B)).kind, np.result_type(np.array(A), np.array(A)).kind, np.promote_types(np.array(A).dtype, bool).kind)
    if kind in 'fi':
        yield 'isclose', lambda np: np.isclose(np.array(A), B)
        yield 'isclose.near', lambda np: (np.isclose(np.array([2000.0, 1.0, 0.0, 1e-9]), np.array([1999.99, 1.00002, 1e-9, 0.0])), np.allclose(np.array(A, dtype=float), np.array(A, dtype=float) * (1 + 1e-7)))
    yield 'mod', lambda np: np.mod(np.array(A, dtype=int) if kind != 'f' else np.array([5, -3, 4]), 3)
    yield 'sign', lambda np: np.sign(np.array(A, dtype=float))
    yield 'count_nonzero', lambda np: np.count_nonzero(np.array(A), axis=axn)
    yield 'flip', lambda np: np.flip(np.array(A), axis=axn)
    yield 'expand_dims', lambda np: np.expand_dims(np.array(A), ax)
    yield 'moveaxis', lambda np: np.moveaxis(np.array(A), ax, 0)
    yield 'broadcast_to', lambda np: np.broadcast_to(np.array(A)[..., :1], sh)
    yield 'append', lambda np: np.append(np.array(A), [1, 2])
    yield 'insert', lambda np: np.insert(np.array([1, 2, 3]), r.choice([0, 1, 3, -1, [0, 2], [1, 1]]), 9)
    yield 'delete', lambda np: np.delete(np.array([1, 2, 3]), r.choice([0, 2, -1, [0, 2]]))
    yield 'issubdtype', lambda np: [np.issubdtype(np.array(A).dtype, t) for t in (np.integer, np.floating, np.number, np.bool_)]
    yield 'abs', lambda np: np.abs(np.array(A))
    yield 'isnan', lambda np: np.isnan(np.array(A))
    yield 'ceil', lambda np: np.ceil(np.array(A, dtype=float))
    yield 'sqrt', lambda np: np.sqrt(np.abs(np.array(A, dtype=float)))
    # indexing
    def rand_index(n):
        c = r.random()
        if c < 0.2:
            return r.randint(-n - 1, n)
        if c < 0.4:
            return slice(r.choice([None, r.randint(-n - 1, n + 1)]), r.choice([None, r.randint(-n - 1, n + 1)]), r.choice([None, 1, 2, -1, -2]))
        if c < 0.6:
            return [r.randint(-n, n - 1) for _ in range(r.randint(0, 3))] if n else []
        if c < 0.75:
            return g.bools(n)
        if c < 0.85:
            return None
        if c < 0.9:
            return Ellipsis
        return slice(None)
    key = tuple(rand_index(s) for s in sh[:r.randint(1, len(sh))])
    if r.random() < 0.3:
        key = key[0]
    yield 'getitem', lambda np: np.array(A)[_conv(np, key)]
    yield 'getitem.bool', lambda np: (np.array(A)[True].shape, np.array(A)[False].shape)
    def fsb(np):
        a = np.array(A, dtype=float); a[r.random() < 0.5] = 4.0; return a
    yield 'setitem.bool', fsb
    V = r.choice([7, 1.5, g.nested(sh[-1:], 'i'), True])
    def fset(np):
        a = np.array(A)
        a[_conv(np, key)] = V
        return a
    yield 'setitem', fset
    lists = [sorted(set(r.randint(0, s - 1) for _ in range(r.randint(0, 2)))) if r.random() < 0.7 else g.bools(s) for s in sh]
    yield 'ix_', lambda np: np.array(A)[np.ix_(*[np.array(l, dtype=(bool if l and isinstance(l[0], bool) else int)) for l in lists])]
    yield 'boolmask', lambda np: np.array(A)[np.array(full)]
    yield 'where1', lambda np: np.where(np.array(full))
    yield 'nonzero', lambda np: np.nonzero(np.array(full))
    def fsetb(np):
        a = np.array(A)
        a[np.array(full)] = 9
        return a
    yield 'boolset', fsetb
    # aliasing: basic slices / transposes / reshapes are views, advanced indexing and copies are not
    def alias(np, how):
        a = np.array(A)
        if how == 'slice':
            b = a[tuple(slice(r.randint(0, 1), None) for _ in sh)]
        elif how == 'T':
            b = a.T
        elif how == 'reshape':
            b = a.reshape(-1)
        elif how == 'Treshape':
            b = a.T.reshape(-1)
        elif how == 'ravel':
            b = a.ravel()
        elif how == 'flatten':
            b = a.flatten()
        elif how == 'swap':
            b = a.swapaxes(0, -1)
        elif how == 'adv':
            b = a[[0]]
        elif how == 'take':
            b = a.take([0], axis=0)
        elif how == 'asarray':
            b = np.asarray(a)
        elif how == 'array':
            b = np.array(a)
        elif how == 'copy':
            b = a.copy()
        elif how == 'squeeze':
            b = a.squeeze()
        elif how == 'newaxis':
            b = a[None]
        elif how == 'int':
            b = a[0] if a.ndim > 1 else a[0:1]
        elif how == 'slice-of-T':
            b = a.T[0:1]
        elif how == 'astype':
            b = a.astype(a.dtype)
        elif how == 'asarrayC-of-T':
            b = np.asarray(a.T, order='C')
        elif how == 'asarrayC':
            b = np.asarray(a, order='C')
        elif how == 'asarrayF-of-T':
            b = np.asarray(a.T, order='F')
        elif how == 'asarrayF':
            b = np.asarray(a, order='F')
        elif how == 'asfortran':
            b = np.asfortranarray(a)
        elif how == 'ascontig-of-T':
            b = np.ascontiguousarray(a.T)
        elif how == 'ascontig-strided':
            b = np.ascontiguousarray(a[..., ::2])
        elif how == 'copyF-ravelK':
            c = a.copy(order='F')
            b = c.ravel(order='K')
        elif how == 'copyK-of-T':
            b = a.T.copy(order='K').reshape(-1, order='A')
        if b.size:
            b[(0,) * b.ndim] = 1
            b.fill(1) if r.random() < 0.3 else None
        return (a, b)
    for how in ('slice', 'T', 'reshape', 'Treshape', 'ravel', 'flatten', 'swap', 'adv', 'take', 'asarray', 'array', 'copy', 'squeeze', 'newaxis', 'int', 'slice-of-T', 'astype',
                'asarrayC-of-T', 'asarrayC', 'asarrayF-of-T', 'asarrayF', 'asfortran', 'ascontig-of-T', 'ascontig-strided', 'copyF-ravelK', 'copyK-of-T'):
        yield 'alias.%s' % how, (lambda np, how=how: alias(np, how))
    # take / compress / repeat / shape manipulation
    idx = [r.randint(-sh[ax] - 1, sh[ax] + 1) for _ in range(r.randint(0, 3))]
    mode = r.choice(['raise', 'clip', 'wrap'])
    yield 'take', lambda np: np.array(A).take(idx, axis=ax, mode=mode)
    yield 'take.scalar', lambda np: np.array(A).take(r.randint(0, sh[ax] - 1), axis=ax)
    yield 'nptake', lambda np: np.take(np.array(A), np.array(idx, dtype=int), axis=ax)
    yield 'compress', lambda np: np.array(A).compress(g.bools(sh[ax]), axis=ax)
    perm = list(range(len(sh)))
    r.shuffle(perm)
    yield 'transpose', lambda np: np.array(A).transpose(perm)
    yield 'T', lambda np: np.array(A).T
    yield 'swapaxes', lambda np: np.array(A).swapaxes(ax, r.randrange(len(sh)))
    yield 'rollaxis', lambda np: np.rollaxis(np.array(A), ax, r.randint(0, len(sh)))
    yield 'squeeze', lambda np: np.array(A).squeeze()
    yield 'squeeze.ax', lambda np: np.array(A).squeeze(ax)
    yield 'reshape', lambda np: np.array(A).reshape((-1,) + sh[-1:])
    for order in ('C', 'F', 'A'):
        yield 'reshape.%s' % order, (lambda np, order=order: (np.array(A).reshape((-1,), order=order), np.array(A).T.reshape(sh, order=order), np.array(A).T.reshape((-1,) + sh[:1], order=order)))
    yield 'ravel.tolist', lambda np: np.array(A).ravel().tolist()
    yield 'repeat', lambda np: np.array(A).repeat(r.randint(1, 3), ax)
    yield 'newaxis', lambda np: np.array(A)[(slice(None),) * r.randint(0, len(sh)) + (np.newaxis,)]
    yield 'concatenate', lambda np: np.concatenate((np.array(A), np.array(g.nested(sh, r.choice('fi')))), axis=ax)
    yield 'array.of.arrays', lambda np: np.array([np.array(A), np.array(A)])
    yield 'diff', lambda np: np.diff(np.array(A), n=r.randint(1, 2), axis=ax)
    yield 'astype', lambda np: np.array(A).astype(r.choice([float, int, bool, object]))
    yield 'copyFalse', lambda np: np.array(A, copy=False)
    yield 'copyFalse.arr', lambda np: np.array(np.array(A), copy=False, dtype=r.choice([None, float]))
    yield 'asarray.dtype', lambda np: np.asarray(np.array(A), dtype=r.choice([float, int, object]))
    yield 'size/ndim', lambda np: (np.size(A), np.ndim(A), np.ndim(3), np.size(3), np.array(A).size, np.array(A).ndim)
    yield 'isscalar', lambda np: (np.isscalar(3), np.isscalar('a'), np.isscalar(None), np.isscalar([1]), np.isscalar(np.array(A).ravel()[0]))
    yield 'iterable', lambda np: (np.iterable(3), np.iterable('ab'), np.iterable([1]), np.iterable(np.array(3)))
    yield 'empty.fill', lambda np: (lambda a: (a.fill(r.choice([1, 2.5, float('nan')])), a)[1])(np.empty(sh, dtype=r.choice([float, int, object])))
    yield 'zeros/ones', lambda np: (np.zeros(sh), np.ones(sh, dtype=int), np.ones(range(len(sh))).shape)
    yield 'arange', lambda np: np.arange(r.randint(0, 4))
    yield 'bool()', lambda np: bool(np.array(A).ravel()[:1])
    yield 'unravel', lambda np: np.unravel_index(r.randrange(math.prod(sh)), sh)
    # 1-D searching / sets
    n = r.randint(0, 5)
    k = r.choice('ifU')
    lab = {'i': g.uints, 'f': g.ufloats, 'U': g.strs}[k](n)
    lab2 = {'i': g.uints, 'f': g.ufloats, 'U': g.strs}[k](r.randint(0, 4))
    dt = object if k == 'U' else None
    srt = sorted(lab)
    qs = lab2 + lab[:2]
    side = r.choice(['left', 'right'])
    yield 'searchsorted', lambda np: np.searchsorted(np.array(srt, dtype=dt), np.array(qs, dtype=dt), side=side)
    yield 'searchsorted.scalar', lambda np: np.searchsorted(np.array(srt, dtype=dt), qs[0] if qs else 1, side=side)
    yield 'searchsorted.sorter', lambda np: (lambda a: np.searchsorted(a, np.array(qs, dtype=dt), side=side, sorter=np.argsort(a)))(np.array(lab, dtype=dt))
    yield 'argsort', lambda np: np.array(lab, dtype=dt).argsort()
    yield 'sort', lambda np: (lambda a: (a.sort(), a)[1])(np.array(lab, dtype=dt))
    yield 'union1d', lambda np: np.union1d(np.array(lab, dtype=dt), np.array(lab2, dtype=dt))
    yield 'isin', lambda np: np.isin(np.array(lab, dtype=dt), np.array(lab2 + lab[:1], dtype=dt), invert=r.random() < 0.5)
    yield 'unique', lambda np: np.unique(np.array(lab + lab[:1], dtype=dt))
    yield 'lab==', lambda np: np.array(lab, dtype=dt) == (qs[0] if qs else 0)
    yield 'lab==arr', lambda np: np.array(lab, dtype=dt) == np.array(lab2, dtype=dt)
    yield 'where(lab==)', lambda np: np.where(np.array(lab, dtype=dt) == (lab[0] if lab else 0))[0]
    yield 'int==str', lambda np: (np.array([1, 2]) == 'a', np.array([1, 2]) != 'a', np.array(['a'], dtype=object) == 1)
    yield 'mixed', lambda np: np.array([(1, 'a'), (2, 'b')])
    yield 'mixed2', lambda np: np.array([[1, 2.5], [True, 3]])
    yield 'objassign', lambda np: (lambda v: (v.__setitem__(slice(None), [(1, 'a'), (2, 'b')]), v)[1])(np.empty(2, dtype=object))
    yield 'meshgrid', lambda np: [x.tolist() for x in np.meshgrid(np.array(lab, dtype=dt), np.array([1, 2]), np.array([0.5]), indexing='ij')]
    yield 'in1d', lambda np: hasattr(np, 'in1d')
    yield 'hasattr', lambda np: [hasattr(np, n) for n in ('nanptp', 'nanall', 'nansum', 'ptp', 'bool', 'float', 'median', 'nanmedian')]
    yield 'hasattr.nd', lambda np: [hasattr(np.ndarray, n) for n in ('ptp', '__nonzero__', 'sum', 'median')]
    yield 'hasattr.ma', lambda np: [hasattr(np.ma, n) for n in ('ptp', 'all', 'any', 'nansum', 'median')]
    # interp
    if n >= 1 and k != 'U':
        xp = sorted(float(x) for x in lab)
        fp = g.floats(n, nanp=0.1)
        xq = [float(x) for x in lab2] + xp[:2] + [xp[0] - 1, xp[-1] + 1, xp[0] + 0.25]
        left = r.choice([None, -9.0, float('nan')])
        yield 'interp', lambda np: np.interp(np.array(xq), np.array(xp), np.array(fp), left=left, right=r.choice([None, 9.0]))
        yield 'interp.idx', lambda np: np.interp(np.array(xq), np.array(xp), np.arange(n), left=-n, right=-1)
        yield 'asint', lambda np: np.asarray(np.array(xq), dtype=int)


def _conv(np, key):
    def c(k):
        if isinstance(k, list):
            if k and isinstance(k[0], bool):
                return np.array(k, dtype=bool)
            return np.array(k, dtype=int)
        return k
    if isinstance(key, tuple):
        return tuple(c(k) for k in key)
    return c(key)


def main():
    seed = 0
    rounds = 300
    args = sys.argv[1:]
    while args:
        a = args.pop(0)
        if a == '--seed':
            seed = int(args.pop(0))
        elif a == '--rounds':
            rounds = int(args.pop(0))
    # API surface
    from symnp_model import _realnames
    bad = []
    if _realnames.VERSION != rnp.__version__:
        bad.append(('version', _realnames.VERSION, rnp.__version__))
    for nme in dir(mnp):
        if nme.startswith('_') or nme in ('ModelGap', 'Sym', 'SymInt', 'SymReal', 'SymBool', 'SymRank', 'symx', 'itertools', 'math', 'builtins', 'AxisError'):
            continue
        if not hasattr(rnp, nme):
            bad.append(('model exports name missing in real numpy', nme))
    stats = {'calls': 0, 'gaps': 0}
    gapnames = {}
    for i in range(rounds):
        st = random.Random(seed * 100003 + i).getstate()
        rng1 = random.Random(); rng1.setstate(st)
        rng2 = random.Random(); rng2.setstate(st)
        c1 = list(cases(G(rng1)))
        c2 = list(cases(G(rng2)))
        for (name, f1), (_, f2) in zip(c1, c2):
            # each lambda may draw random numbers: give both sides identical streams
            s = rng1.getstate()
            rng2.setstate(s)
            a = run(f1, rnp)
            rng1.setstate(s)
            b = run(f1, mnp)
            stats['calls'] += 1
            if b[0] == 'gap':
                stats['gaps'] += 1
                gapnames[name] = gapnames.get(name, 0) + 1
                continue
            if a[0] != b[0] or not close(a[1], b[1]):
                bad.append((name, i, a, b))
    for b in bad[:40]:
        print('MISMATCH', b)
    print('conformance: %d calls, %d model gaps %r, %d mismatches' % (stats['calls'], stats['gaps'], gapnames, len(bad)))
    return 1 if bad else 0


if __name__ == '__main__':
    sys.exit(main())
