"""Symbolic worker: explores one template with symx on the real dimarray source over the symnp model.
Runs inside a multiprocessing pool process; numpy == symnp in this process."""
import os
import sys
import time
import importlib
import warnings
import traceback

HERE = os.path.dirname(os.path.dirname(os.path.abspath(__file__)))
REPO = os.environ.get('VERIF_REPO', '/repo')

_state = {}


def init():
    try:
        _init()
    except BaseException as e:     # never let a pool initializer die (the pool would respawn forever)
        _state['init_error'] = "%s: %s" % (type(e).__name__, e)


def _init():
    sys.dont_write_bytecode = True
    for p in (REPO, os.path.join(HERE, '.deps'), HERE, os.path.join(HERE, 'symnp')):
        if p in sys.path:
            sys.path.remove(p)
        sys.path.insert(0, p)
    warnings.simplefilter('ignore')
    import io
    import contextlib
    import numpy as np
    assert getattr(np, '_realnames', None) is not None, "symnp must shadow numpy in symbolic workers"
    with contextlib.redirect_stdout(io.StringIO()):
        import dimarray as da
    assert os.path.abspath(da.__file__).startswith(os.path.abspath(REPO)), da.__file__
    import symx
    from vlib import ctx as ctxmod
    _state.update(np=np, da=da, symx=symx, ctxmod=ctxmod)


def _profile_functions(fn_holder):
    seen = set()
    prefix = os.path.join(os.path.abspath(REPO), 'dimarray') + os.sep

    def prof(frame, event, arg):
        if event == 'call':
            co = frame.f_code
            f = co.co_filename
            if f.startswith(prefix):
                seen.add("%s:%s" % (f[len(prefix):], co.co_qualname if hasattr(co, 'co_qualname') else co.co_name))
    return seen, prof


def run_template(job):
    """job: {'t': template dict, 'deadline': s, 'exclude': [...], 'witness_cap': n, 'seed': n}"""
    if not _state:
        init()
    t = job['t']
    if 'init_error' in _state:
        return {'name': t['name'], 'prop': t['prop'], 'fn': t['fn'], 'params': t['params'], 'exclude': [], 'status': 'error',
                'error': 'cannot import dimarray over the numpy model: ' + _state['init_error'], 'paths': 0, 'verified': 0, 'vacuous': 0,
                'aborted': 0, 'reasons': [], 'forks': 0, 'decisions': 0, 'q_sat': 0, 'q_unsat': 0, 'q_unknown': 0, 'solver_s': 0.0,
                'functions': [], 'witnesses': [], 'cex': None, 'wall_s': 0.0}
    np, da, symx, ctxmod = _state['np'], _state['da'], _state['symx'], _state['ctxmod']
    out = {'name': t['name'], 'prop': t['prop'], 'fn': t['fn'], 'params': t['params'], 'exclude': list(job.get('exclude', ()))}
    t0 = time.time()
    try:
        mod = importlib.import_module('props.' + t['mod'])
        fn = getattr(mod, t['fn'])
        eng = symx.Engine(seed=job.get('seed', 0), solver_timeout_ms=job.get('solver_timeout_ms', 20000))
        eng.dump_k = job.get('dump_k', 0)
        first = {'done': False}
        seen, prof = _profile_functions(None)
        saved_opts = dict(da.rcParams)

        def harness(eng_):
            c = ctxmod.Ctx(np, da, True, engine=eng_, exclude=job.get('exclude', ()))
            c.monitor = job.get('monitor')
            try:
                if not first['done']:
                    first['done'] = True
                    sys.setprofile(prof)
                    try:
                        return fn(c, **t['params'])
                    finally:
                        sys.setprofile(None)
                return fn(c, **t['params'])
            finally:
                da.rcParams.update(saved_opts)
        import io
        import contextlib
        cov = None
        if os.environ.get('VERIF_COVERAGE'):
            # development aid (not used by the registered commands): which lines / branches of dimarray do the explored paths execute?
            import coverage
            os.makedirs(os.environ['VERIF_COVERAGE'], exist_ok=True)
            cov = coverage.Coverage(data_file=os.path.join(os.environ['VERIF_COVERAGE'], '.coverage'), data_suffix=True, branch=True,
                                    include=[os.path.join(os.path.abspath(REPO), 'dimarray', '*')])
            cov.start()
        with contextlib.redirect_stdout(io.StringIO()):      # the library prints diagnostics on some error paths
          try:
            res = eng.explore(harness, deadline_s=job.get('deadline', 60), max_paths=job.get('max_paths', 500000),
                              witness_cap=job.get('witness_cap', 4))
          finally:
            if cov is not None:
                cov.stop()
                cov.save()
        out.update(status=res['status'], paths=res['paths'], verified=res['verified'], vacuous=res['vacuous'],
                   aborted=res['aborted'], reasons=res['abort_reasons'],
                   forks=eng.stats['forks'], decisions=eng.stats['decisions'],
                   q_sat=eng.stats['q_sat'], q_unsat=eng.stats['q_unsat'], q_unknown=eng.stats['q_unknown'],
                   solver_s=round(eng.ztime, 3), functions=sorted(seen),
                   witnesses=[ctxmod.to_json(w) for w in res['witnesses']],
                   cex=ctxmod.to_json(res['cex']) if res['cex'] else None, dumps=list(eng.dumps),
                   fresh_solver_queries=eng.stats['fresh_solver_queries'], split_obligations=eng.stats['split_obligations'])
    except BaseException as e:   # harness bug or engine failure: never a verdict
        out.update(status='error', error="%s: %s" % (type(e).__name__, e), tb=traceback.format_exc()[-2000:],
                   paths=0, verified=0, vacuous=0, aborted=0, reasons=[], forks=0, decisions=0, q_sat=0, q_unsat=0,
                   q_unknown=0, solver_s=0.0, functions=[], witnesses=[], cex=None)
    out['wall_s'] = round(time.time() - t0, 3)
    return out
