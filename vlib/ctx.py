"""Harness context: the same harness function runs symbolically (symnp + symx) and concretely (real
NumPy).  ctx hands out inputs (fresh solver variables, or the concrete values of a witness /
counterexample), builds arrays through dimarray's public constructors, normalises observations and
offers NaN-aware comparison helpers."""
import math


class Reject(Exception):
    """concrete mode: the given inputs violate an assumption of the template"""


class Ctx(object):
    def __init__(self, np, da, sym, engine=None, inputs=None, exclude=()):
        self.np = np
        self.da = da
        self.sym = sym
        self.eng = engine
        self.inputs = inputs
        self.exclude = set(exclude)
        self.regions = {}
        self.operands = []
        self.obs = None
        self.used = []
        self._rankmap = None
        self.prime_all = False
        if sym:
            import symx
            self.symx = symx

    # ------------------------------------------------------------------ inputs
    def _get(self, name):
        self.used.append(name)
        try:
            return self.inputs[name]
        except KeyError:
            raise KeyError("replay inputs lack %r" % name)

    def int(self, name):
        if self.sym:
            return self.eng.fresh_int(name)
        return int(self._get(name))

    def real(self, name):
        if self.sym:
            return self.eng.fresh_real(name)
        return float(self._get(name))

    def bool(self, name):
        if self.sym:
            return self.eng.fresh_bool(name)
        return bool(self._get(name))

    def rank(self, name):
        if self.sym:
            return self.eng.fresh_rank(name)
        v = self._get(name)
        return self.render_rank(v['__rank__'] if isinstance(v, dict) else v)

    def render_rank(self, r):
        if self._rankmap is None:
            vals = set()

            def walk(x):
                if isinstance(x, dict):
                    if '__rank__' in x:
                        vals.add(x['__rank__'])
                    else:
                        for v in x.values():
                            walk(v)
                elif isinstance(x, (list, tuple)):
                    for v in x:
                        walk(v)
            walk(self.inputs)
            self._rankmap = dict((v, "k%03d" % i) for i, v in enumerate(sorted(vals)))
        return self._rankmap.get(r, 'u%d' % r)

    def choice(self, name, n):
        """symbolic integer in range(n), decided by forking (returns a concrete python int)"""
        if not self.sym:
            v = int(self._get(name))
            if not 0 <= v < n:
                raise Reject("choice %s=%d outside range(%d)" % (name, v, n))
            return v
        v = self.eng.fresh_int(name)
        self.assume((v >= 0) & (v < n))
        return int(v)

    def label(self, kind, name):
        return {'i': self.int, 'f': self.real, 'U': self.rank}[kind](name)

    def labels(self, kind, n, prefix, distinct=True, order=None):
        """n labels of kind i / f / U; distinct; order in {None, 'inc', 'dec', 'mono', 'nonmono'}"""
        ls = [self.label(kind, "%s%d" % (prefix, i)) for i in range(n)]
        if order in ('inc-ties', 'dec-ties'):
            # monotonic but not strictly: neighbouring labels may coincide; the direction is fixed by the end points
            for i in range(n - 1):
                self.assume((ls[i] <= ls[i + 1]) if order == 'inc-ties' else (ls[i] >= ls[i + 1]))
            if n >= 2:
                self.assume((ls[0] < ls[n - 1]) if order == 'inc-ties' else (ls[0] > ls[n - 1]))
            return ls
        if distinct:
            for i in range(n):
                for j in range(i + 1, n):
                    self.assume(ls[i] != ls[j])
        if order == 'inc':
            for i in range(n - 1):
                self.assume(ls[i] < ls[i + 1])
        elif order == 'dec':
            for i in range(n - 1):
                self.assume(ls[i] > ls[i + 1])
        elif order in ('mono', 'nonmono'):
            inc = self.AND(*[ls[i] < ls[i + 1] for i in range(n - 1)])
            dec = self.AND(*[ls[i] > ls[i + 1] for i in range(n - 1)])
            mono = self.OR(inc, dec)
            self.assume(mono if order == 'mono' else self.NOT(mono))
        return ls

    def cells(self, kind, n, prefix, nan=False, inf=False):
        """n data cells. kind f: reals (with nan=True each cell may also be NaN, decided by a symbolic bit; with inf=True each cell
        may also be +inf or -inf, decided by a symbolic choice)"""
        out = []
        for i in range(n):
            name = "%s%d" % (prefix, i)
            if kind == 'f':
                if inf:
                    k = self.choice(name + '_special', 4 if nan else 3)
                    if k:
                        out.append([None, float('inf'), float('-inf'), float('nan')][k])
                        continue
                    out.append(self.real(name))
                    continue
                if nan and self.bool(name + '_isnan'):
                    out.append(float('nan'))
                    if not self.sym:
                        pass
                    continue
                out.append(self.real(name))
            elif kind == 'i':
                out.append(self.int(name))
            elif kind == 'b':
                out.append(self.bool(name))
            else:
                raise ValueError(kind)
        return out

    # ------------------------------------------------------------------ logic helpers
    def assume(self, c):
        if self.sym:
            self.symx.assume(c)
        elif not c:
            raise Reject("assumption violated by replay inputs")

    def region(self, rid, cond):
        """a named input region (used by known findings).  Symbolic: excluded regions are assumed away.
        Concrete: records whether the replayed input lies in the region."""
        if getattr(self, 'exclude_all_regions', False):
            # catalogue runs (C05 / C15): known-finding regions of the borrowed property are outside this claim
            self.assume(self.NOT(cond))
            return
        if self.sym:
            if rid in self.exclude:
                self.assume(self.NOT(cond))
            return
        self.regions[rid] = bool(cond) or self.regions.get(rid, False)

    def AND(self, *xs):
        r = True
        for x in xs:
            if x is True:
                continue
            if x is False:
                return False
            if self.sym and isinstance(x, self.symx.SymBool):
                r = x if r is True else (r & x)
            elif not x:
                return False
        return r

    def OR(self, *xs):
        r = False
        for x in xs:
            if x is False:
                continue
            if x is True:
                return True
            if self.sym and isinstance(x, self.symx.SymBool):
                r = x if r is False else (r | x)
            elif x:
                return True
        return r

    def NOT(self, x):
        if self.sym and isinstance(x, self.symx.SymBool):
            return ~x
        return not x

    def isnan(self, x):
        return type(x) is float and x != x

    def eq(self, a, b):
        """cell equality: NaN == NaN; numbers compared exactly (symbolic) / up to rounding (concrete)"""
        an, bn = self.isnan(a), self.isnan(b)
        if an or bn:
            return an and bn
        if isinstance(a, (tuple, list)) or isinstance(b, (tuple, list)):
            if not isinstance(a, (tuple, list)) or not isinstance(b, (tuple, list)) or len(a) != len(b):
                return False
            return self.AND(*[self.eq(x, y) for x, y in zip(a, b)])
        if self.sym:
            S = self.symx
            if isinstance(a, S.Sym) or isinstance(b, S.Sym):
                if isinstance(a, S.SymBool) != isinstance(b, S.SymBool) and not (isinstance(a, bool) or isinstance(b, bool)):
                    return False
                r = a == b
                if r is NotImplemented:
                    return False
                return r
        if isinstance(a, bool) != isinstance(b, bool):
            return False
        if isinstance(a, str) != isinstance(b, str):
            return False
        if isinstance(a, float) or isinstance(b, float):
            try:
                if math.isinf(a) or math.isinf(b):
                    return a == b
                return abs(a - b) <= 1e-9 * max(1.0, abs(a), abs(b))
            except TypeError:
                return False
        return a == b

    def eqlist(self, a, b):
        if len(a) != len(b):
            return False
        return self.AND(*[self.eq(x, y) for x, y in zip(a, b)])

    def flat(self, x):
        if isinstance(x, list):
            out = []
            for e in x:
                out.extend(self.flat(e))
            return out
        return [x]

    def shape_of(self, x):
        sh = []
        while isinstance(x, list):
            sh.append(len(x))
            if not x:
                break
            x = x[0]
        return tuple(sh)

    # ------------------------------------------------------------------ building arrays
    def under(self, opts):
        """global dimarray options in force while the harness builds its arrays and calls the operation (the worker restores the
        options after every run)"""
        for k, v in (opts or {}).items():
            self.da.set_option(k, v)

    def nparray(self, cells, shape=None, kind=None):
        np = self.np
        dt = {None: None, 'f': float, 'i': int, 'b': bool, 'O': object, 'U': None}[kind]
        if kind == 'U' and len(cells) == 0:
            dt = object
        a = np.array(list(cells), dtype=dt)
        if shape is not None:
            a = a.reshape(tuple(shape))
        return a

    def axis_values(self, labels, kind):
        return self.nparray(labels, kind=kind)

    def mk(self, dims, labels, cells, lkinds=None, kind='f', attrs=None, register=True, layout=None):
        """DimArray through the public constructor: values ndarray + (name, label ndarray) pairs.
        layout: memory layout of the value buffer handed to the constructor - None / 'C' (row-major), 'F' (column-major),
        'strided' (every second element of a longer buffer): the logical content is the same"""
        shape = tuple(len(l) for l in labels)
        lkinds = lkinds or ['i'] * len(dims)
        vals = self.nparray(cells, shape, kind)
        layout = layout or getattr(self, 'default_layout', None)
        if layout == 'F' and len(shape) > 1:
            vals = self.np.asfortranarray(vals)
        elif layout == 'strided' and len(shape) >= 1 and shape[-1] > 0:
            wide = self.np.empty(tuple(shape[:-1]) + (2 * shape[-1],), dtype=vals.dtype)
            wide[..., ::2] = vals
            wide[..., 1::2] = vals[..., ::-1]
            vals = wide[..., ::2]
        axes = [(d, self.axis_values(l, k)) for d, l, k in zip(dims, labels, lkinds)]
        a = self.da.DimArray(vals, axes=axes) if dims else self.da.DimArray(vals)
        if attrs:
            a.attrs.update(attrs)
        if getattr(self, 'prime_all', False):
            # the axes have answered is_monotonic() before: their cached state must not change any answer
            for ax in a.axes:
                ax.is_monotonic()
        if register and getattr(self, 'c15_mode', False) and not attrs:
            # C15: operands carry metadata with mutable values ...
            npx = self.np
            attrs = {'hist': [1, [2, 3]], 'meta': {'k': [4]},
                     # NumPy scalars / arrays nested inside containers (their *types* belong to the metadata too)
                     'npmeta': [npx.int64(7), {'a': npx.float64(1.5), 'arr': npx.array([1, 2])}, (npx.int32(3),)]}
            a.attrs.update(attrs)
        if register:
            import copy as _copy
            self.operands.append({'obj': a, 'dims': tuple(dims), 'labels': [list(l) for l in labels],
                                  'cells': list(cells), 'kind': kind, 'attrs': dict(attrs or {}),
                                  'attrs_snapshot': _copy.deepcopy(dict((k, v) for k, v in (attrs or {}).items() if isinstance(v, (list, dict)))),
                                  'axis_attrs': [dict(ax.attrs) for ax in a.axes]})
            if getattr(self, 'c15_mode', False) and len(dims) >= 1:
                # ... and share their Axis objects with a live sibling (result of transpose)
                sib = a.transpose(list(reversed(dims)))
                self.operands[-1]['sibling'] = sib
        return a

    def operands_unchanged(self):
        """C15 obligation: every registered operand still equals its construction inputs"""
        oks = []
        for op in self.operands:
            a = op['obj']
            oks.append(tuple(a.dims) == op['dims'])
            oks.append(self.kind_of(a.values) == op['kind'])
            for ax, l in zip(a.axes, op['labels']):
                oks.append(self.eqlist(ax.values.tolist(), l))
            oks.append(self.eqlist(self.flat(a.values.tolist()), op['cells']))
            oks.append(set(a.attrs.keys()) == set(op['attrs'].keys()))
            for k, v in op['attrs'].items():
                if k in a.attrs:
                    oks.append(a.attrs[k] is v or a.attrs[k] == v)
            for k, v in op.get('attrs_snapshot', {}).items():
                oks.append(k in a.attrs and self.deep_same(a.attrs[k], v))
            for ax, at in zip(a.axes, op.get('axis_attrs', [])):
                oks.append(dict(ax.attrs) == at)
            sib = op.get('sibling')
            if sib is not None:
                oks.append(tuple(sib.dims) == tuple(reversed(op['dims'])))
                for ax, l in zip(sib.axes, list(reversed(op['labels']))):
                    oks.append(self.eqlist(ax.values.tolist(), l))
        return self.AND(*oks)

    def deep_same(self, x, y):
        """type-aware structural equality of metadata values (containers recursively; arrays by dtype kind, shape and content)"""
        if type(x) is not type(y):
            return False
        if isinstance(x, dict):
            return set(x.keys()) == set(y.keys()) and all(self.deep_same(x[k], y[k]) for k in x)
        if isinstance(x, (list, tuple)):
            return len(x) == len(y) and all(self.deep_same(p, q) for p, q in zip(x, y))
        if hasattr(x, 'tolist') and hasattr(x, 'dtype') and hasattr(x, 'shape'):
            return x.dtype == y.dtype and tuple(x.shape) == tuple(y.shape) and bool(self.eq(x.tolist(), y.tolist()) if not isinstance(x.tolist(), list) else self.eqlist(self.flat(x.tolist()), self.flat(y.tolist())))
        return bool(x == y)

    # ------------------------------------------------------------------ observing results
    def kind_of(self, arr):
        k = arr.dtype.kind
        if k in 'US':
            return 'U'
        if k == 'u':
            return 'i'
        return k

    def scalar(self, x):
        if hasattr(x, 'item') and hasattr(x, 'dtype') and getattr(x, 'ndim', 0) == 0:
            return x.item()
        return x

    def observe(self, x):
        da, np = self.da, self.np
        if isinstance(x, da.DimArray):
            return {'t': 'A', 'dims': list(x.dims), 'labels': [ax.values.tolist() for ax in x.axes],
                    'values': x.values.tolist(), 'kind': self.kind_of(x.values),
                    'attrs': sorted(x.attrs.keys())}
        if isinstance(x, da.Dataset):
            return {'t': 'D', 'dims': list(x.dims), 'labels': [ax.values.tolist() for ax in x.axes],
                    'keys': list(x.keys()), 'vars': dict((k, self.observe(dict.__getitem__(x, k))) for k in x.keys())}
        if isinstance(x, np.ndarray):
            return {'t': 'N', 'values': x.tolist(), 'kind': self.kind_of(x)}
        if isinstance(x, (list, tuple)):
            return [self.observe(e) for e in x]
        if isinstance(x, dict):
            return dict((k, self.observe(v)) for k, v in x.items())
        if isinstance(x, da.Axis):
            return {'t': 'X', 'name': x.name, 'values': x.values.tolist()}
        return self.scalar(x)

    def call(self, f, *a, **k):
        """('ok', result) or ('exc', exception type name).  Control exceptions of the engine are
        BaseException and pass through."""
        try:
            return ('ok', f(*a, **k))
        except Exception as e:
            if type(e).__name__ == 'ModelGap':
                raise self.symx.Abort(str(e)) if self.sym else e
            self.last_exc = e
            return ('exc', type(e).__name__)

    def note(self, key, val):
        if self.sym:
            self.eng.notes[key] = val

    def done(self, ok, obs=None, inplace=False):
        """final verdict of a harness; records the observation for differential comparison.
        Unless the template performs an in-place operation, the verdict includes that every operand
        built by ctx.mk still equals its construction inputs (an operation that corrupts its operand
        makes the next result on that operand wrong)."""
        if obs is not None:
            self.obs = obs
        if getattr(self, 'only_operands', False):
            # C15 catalogue: the verdict is the operand obligation alone
            ok = True if inplace else self.operands_unchanged()
        elif not inplace and ok is not False:
            ok = self.AND(ok, self.operands_unchanged())
        if self.sym:
            self.eng.obs = self.obs
        return ok


# ---------------------------------------------------------------------- reference labelled array
class Ref(object):
    """plain-python labelled array used by oracles: dims (tuple of str), labels (list of lists),
    cells (flat, row-major)"""

    def __init__(self, dims, labels, cells):
        self.dims = tuple(dims)
        self.labels = [list(l) for l in labels]
        self.cells = list(cells)
        self.shape = tuple(len(l) for l in self.labels)

    def at(self, pos):
        off = 0
        for p, n in zip(pos, self.shape):
            off = off * n + p
        return self.cells[off]

    def nested(self):
        def rec(dim, off):
            if dim == len(self.shape):
                return self.cells[off]
            n = self.shape[dim]
            return [rec(dim + 1, off * n + i) for i in range(n)]
        if not self.shape:
            return self.cells[0]
        return rec(0, 0)

    def positions(self):
        import itertools
        return list(itertools.product(*[range(n) for n in self.shape]))

    def select(self, per_dim):
        """per_dim: for each dimension an int (drop) or a list of positions (keep) -> Ref"""
        import itertools
        dims = []
        labels = []
        lists = []
        for d, l, sel in zip(self.dims, self.labels, per_dim):
            if isinstance(sel, int):
                lists.append([sel])
            else:
                dims.append(d)
                labels.append([l[i] for i in sel])
                lists.append(list(sel))
        cells = [self.at(pos) for pos in itertools.product(*lists)]
        return Ref(dims, labels, cells)

    def transpose(self, order):
        import itertools
        dims = [self.dims[i] for i in order]
        labels = [self.labels[i] for i in order]
        shape = [self.shape[i] for i in order]
        cells = []
        for pos in itertools.product(*[range(n) for n in shape]):
            src = [0] * len(order)
            for j, i in enumerate(order):
                src[i] = pos[j]
            cells.append(self.at(src))
        return Ref(dims, labels, cells)


def same(ctx, x, ref, check_kind=None, attrs=None):
    """DimArray x equals the reference: dims, labels, shape, every cell (and optionally dtype kind, attrs)"""
    da = ctx.da
    if not isinstance(x, da.DimArray):
        if not ref.dims and len(ref.cells) == 1 and not isinstance(x, (list, tuple, dict, da.Dataset)) and getattr(x, 'ndim', 0) == 0:
            return ctx.eq(ctx.scalar(x), ref.cells[0])
        return False
    if tuple(x.dims) != ref.dims:
        return False
    if tuple(x.values.shape) != ref.shape:
        return False
    oks = []
    for ax, l in zip(x.axes, ref.labels):
        got = ax.values.tolist()
        if len(got) != len(l):
            return False
        oks.append(ctx.eqlist(got, l))
    oks.append(ctx.eqlist(ctx.flat(x.values.tolist()) if ref.shape else [x.values.tolist()], ref.cells))
    if check_kind is not None:
        oks.append(ctx.kind_of(x.values) == check_kind)
    if attrs is not None:
        oks.append(set(x.attrs.keys()) == set(attrs.keys()))
        for k, v in attrs.items():
            if k in x.attrs:
                oks.append(ctx.eq(x.attrs[k], v) if not isinstance(v, (list, dict)) else x.attrs[k] == v)
    return ctx.AND(*oks)


# ---------------------------------------------------------------------- json encoding of inputs / observations
def to_json(x):
    t = type(x).__name__
    if t == 'Rank':
        return {'__rank__': x.r}
    if isinstance(x, dict):
        return dict((str(k), to_json(v)) for k, v in x.items())
    if isinstance(x, (list, tuple)):
        return [to_json(v) for v in x]
    if isinstance(x, (bool, int, float, str)) or x is None:
        return x
    if hasattr(x, 'item') and getattr(x, 'ndim', 0) == 0:
        return to_json(x.item())
    return {'__repr__': repr(x)[:200]}


def obs_equal(a, b, rank=None, path=''):
    """compare two json-ish observations (model-concretised vs real); returns None or a mismatch description"""
    if isinstance(a, dict) and '__rank__' in a and rank is not None:
        a = rank(a['__rank__'])
    if isinstance(b, dict) and '__rank__' in b and rank is not None:
        b = rank(b['__rank__'])
    if isinstance(a, dict) and isinstance(b, dict):
        if set(a) != set(b):
            return "%s: keys %r vs %r" % (path, sorted(a), sorted(b))
        for k in a:
            r = obs_equal(a[k], b[k], rank, path + '/' + str(k))
            if r:
                return r
        return None
    if isinstance(a, (list, tuple)) and isinstance(b, (list, tuple)):
        if len(a) != len(b):
            return "%s: len %d vs %d" % (path, len(a), len(b))
        for i, (x, y) in enumerate(zip(a, b)):
            r = obs_equal(x, y, rank, "%s[%d]" % (path, i))
            if r:
                return r
        return None
    if isinstance(a, bool) or isinstance(b, bool):
        return None if (isinstance(a, bool) and isinstance(b, bool) and a == b) else "%s: %r vs %r" % (path, a, b)
    if isinstance(a, (int, float)) and isinstance(b, (int, float)):
        if a != a or b != b:
            return None if (a != a and b != b) else "%s: %r vs %r" % (path, a, b)
        if math.isinf(a) or math.isinf(b):
            return None if a == b else "%s: %r vs %r" % (path, a, b)
        return None if abs(a - b) <= 1e-7 * max(1.0, abs(a), abs(b)) else "%s: %r vs %r" % (path, a, b)
    return None if a == b else "%s: %r vs %r" % (path, a, b)
