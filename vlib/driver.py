#!/venv/bin/python
"""check driver:  ./check <PROP> [--tier quick|thorough] [--replay file] [--only substr] [--jobs N]

Explores the property's templates symbolically (pool of symworker processes: real dimarray source +
symnp + symx/z3), replays every counterexample and a sample of per-path witnesses on the real stack
(real NumPy), matches confirmed counterexamples against known_findings.json, writes
evidence/<PROP>.json.  Exit 0: property held on everything explored (or only listed known findings);
exit 1 + 'VIOLATION property=<id> replay=<path>': a violation reproduced on the real stack."""
import os
import sys
import json
import time
import random
import importlib
import subprocess
import multiprocessing

HERE = os.path.dirname(os.path.dirname(os.path.abspath(__file__)))
sys.dont_write_bytecode = True
try:
    sys.set_int_max_str_digits(0)
except Exception:
    pass
sys.path.insert(0, HERE)
PY = '/venv/bin/python'
REPO = os.environ.get('VERIF_REPO', '/repo')
WORK = os.path.join(HERE, '.work')


def ensure_deps():
    deps = os.path.join(HERE, '.deps')
    if os.path.isdir(os.path.join(deps, 'z3')):
        return
    subprocess.check_call([PY, '-m', 'pip', 'install', '-q', '--no-index', '--find-links', '/opt/veriftools/wheels',
                           '--target', deps, 'z3-solver'], stdout=subprocess.DEVNULL)


def load_templates(prop, tier, seed, only=None):
    mod = importlib.import_module('props.' + prop)
    ts = mod.templates()
    names = set()
    for t in ts:
        t.setdefault('prop', prop)
        t.setdefault('mod', prop)
        t.setdefault('tier', 'quick')
        t.setdefault('cost', 1.0)
        t.setdefault('params', {})
        assert t['name'] not in names, "duplicate template name %s" % t['name']
        names.add(t['name'])
    if only:
        ts = [t for t in ts if only in t['name']]
    if tier == 'quick':
        quick = [t for t in ts if t['tier'] == 'quick']
        rest = [t for t in ts if t['tier'] == 'thorough']
        rng = random.Random(seed)
        rng.shuffle(rest)
        budget = getattr(mod, 'QUICK_SAMPLE_COST', 40.0)
        for t in rest:
            if t['cost'] <= budget:
                quick.append(t)
                budget -= t['cost']
        ts = quick
    else:
        ts = [t for t in ts if t['tier'] in ('quick', 'thorough')]
    ts.sort(key=lambda t: -t['cost'])
    return mod, ts


def run_real(jobs, nproc=8):
    """run jobs on the real stack; returns {id: result}"""
    if not jobs:
        return {}
    os.makedirs(WORK, exist_ok=True)
    nproc = max(1, min(nproc, (len(jobs) + 39) // 40))
    chunks = [jobs[i::nproc] for i in range(nproc)]
    procs = []
    tag = "%d-%d" % (os.getpid(), int(time.time() * 1000) % 100000)
    for i, ch in enumerate(chunks):
        jf = os.path.join(WORK, 'jobs-%s-%d.json' % (tag, i))
        rf = os.path.join(WORK, 'res-%s-%d.json' % (tag, i))
        json.dump(ch, open(jf, 'w'))
        env = dict(os.environ, PYTHONDONTWRITEBYTECODE='1', VERIF_REPO=REPO)
        env.pop('PYTHONPATH', None)
        p = subprocess.Popen([PY, os.path.join(HERE, 'realstack', 'worker.py'), jf, rf], env=env,
                             stdout=subprocess.PIPE, stderr=subprocess.STDOUT)
        procs.append((p, jf, rf, ch))
    out = {}
    for p, jf, rf, ch in procs:
        o, _ = p.communicate()
        if p.returncode != 0 or not os.path.exists(rf):
            for j in ch:
                out[j['id']] = {'id': j['id'], 'status': 'error', 'err': 'real-stack worker failed: ' + o.decode('utf8', 'replace')[-500:]}
        else:
            for r in json.load(open(rf)):
                out[r['id']] = r
        for f in (jf, rf):
            try:
                os.remove(f)
            except OSError:
                pass
    return out



class WorkerPool(object):
    """process pool that survives crashing workers (segfault / stack overflow in a mutated tree) and enforces
    a hard wall-clock limit per template; a lost template is reported as an error, never as a verdict"""

    def __init__(self, n):
        self.ctx = multiprocessing.get_context('fork')
        self.n = n
        self.workers = []

    @staticmethod
    def _serve(conn):
        from vlib import symworker
        symworker.init()
        while True:
            try:
                job = conn.recv()
            except EOFError:
                return
            if job is None:
                return
            conn.send(symworker.run_template(job))

    def _spawn(self):
        a, b = self.ctx.Pipe()
        p = self.ctx.Process(target=WorkerPool._serve, args=(b,), daemon=True)
        p.start()
        b.close()
        return {'p': p, 'conn': a, 'job': None, 'idx': None, 't0': 0}

    def map(self, jobs):
        from multiprocessing.connection import wait
        results = [None] * len(jobs)
        todo = list(range(len(jobs)))
        while len(self.workers) < min(self.n, max(1, len(jobs))):
            self.workers.append(self._spawn())
        done = 0
        while done < len(jobs):
            for w in self.workers:
                if w['job'] is None and todo:
                    i = todo.pop(0)
                    w['job'], w['idx'], w['t0'] = jobs[i], i, time.time()
                    w['conn'].send(jobs[i])
            busy = [w for w in self.workers if w['job'] is not None]
            ready = wait([w['conn'] for w in busy], timeout=2.0)
            for w in busy:
                lost = None
                if w['conn'] in ready:
                    try:
                        results[w['idx']] = w['conn'].recv()
                        w['job'] = None
                        done += 1
                        continue
                    except (EOFError, OSError):
                        lost = 'worker process died while exploring this template (crash or stack overflow in the code under analysis)'
                elif not w['p'].is_alive():
                    lost = 'worker process died while exploring this template (crash or stack overflow in the code under analysis)'
                elif time.time() - w['t0'] > w['job'].get('deadline', 60) * 2 + 90:
                    lost = 'hard wall-clock limit exceeded'
                if lost:
                    t = w['job']['t']
                    results[w['idx']] = {'name': t['name'], 'prop': t['prop'], 'fn': t['fn'], 'params': t['params'], 'exclude': list(w['job'].get('exclude', ())),
                                         'status': 'error', 'error': lost, 'paths': 0, 'verified': 0, 'vacuous': 0, 'aborted': 0, 'reasons': [], 'forks': 0,
                                         'decisions': 0, 'q_sat': 0, 'q_unsat': 0, 'q_unknown': 0, 'solver_s': 0.0, 'functions': [], 'witnesses': [], 'cex': None,
                                         'wall_s': round(time.time() - w['t0'], 2)}
                    done += 1
                    try:
                        w['p'].kill()
                    except Exception:
                        pass
                    self.workers[self.workers.index(w)] = self._spawn()
        return results

    def close(self):
        for w in self.workers:
            try:
                w['conn'].send(None)
            except Exception:
                pass
        for w in self.workers:
            w['p'].join(timeout=2)
            if w['p'].is_alive():
                w['p'].kill()


def enumeration_cross_check(results, tmpl, findings, seed, budget, nproc):
    """Independent check of the path explorer: for a seed-rotated sample of confirmed templates, enumerate concrete inputs over a
    small value domain that realises every order / equality pattern of the label-like inputs (2k+1 values for k such inputs; data
    cells get fixed distinct values, NaN bits both values) and run the same harness on the REAL stack; every non-rejected
    assignment must satisfy the oracle.  (Not the deciding step - it cross-checks that the symbolic exploration skipped nothing.)"""
    import itertools
    ntemplates, cap = budget
    rng = random.Random(seed + 13)
    names = [n for n, r in sorted(results.items()) if r['status'] == 'confirmed' and r.get('witnesses')]
    rng.shuffle(names)
    out = {'templates': 0, 'assignments': 0, 'holds': 0, 'rejected': 0, 'errors': 0, 'violations': []}
    jobs = []
    for name in names:
        if out['templates'] >= ntemplates:
            break
        w = results[name]['witnesses'][0]['inputs']
        # the set of inputs must not depend on the path (true for templates without symbolic NaN bits / choices on other paths)
        keysets = set(tuple(sorted(x['inputs'].keys())) for x in results[name]['witnesses'])
        if len(keysets) != 1:
            continue
        lab, fixed, bools = [], {}, []
        for k, v in sorted(w.items()):
            if isinstance(v, bool):
                bools.append(k)
            elif k[:1] in 'vwu' and k[1:2].isdigit() or k.startswith('rhs') or k in ('s', 'meta', 'val', 'val2'):
                fixed[k] = v
            else:
                lab.append((k, v))
        if len(lab) > 7 or len(lab) == 0:
            continue
        dom = list(range(2 * len(lab) + 1))
        total = (len(dom) ** len(lab)) * (2 ** len(bools))
        t = tmpl[name]
        space = itertools.product(*([dom] * len(lab) + [[False, True]] * len(bools)))
        if total > cap:
            picks = set(rng.sample(range(total), cap))
            space = (x for i, x in enumerate(space) if i in picks)
        out['templates'] += 1
        for j, vals in enumerate(space):
            inp = {}
            for (k, v0), x in zip(lab, vals):
                if isinstance(v0, dict):
                    inp[k] = {'__rank__': x}
                elif isinstance(v0, float):
                    inp[k] = float(x) / 2.0 if k in ('tol',) else float(x)
                else:
                    inp[k] = x
            for k, x in zip(bools, vals[len(lab):]):
                inp[k] = x
            for i, k in enumerate(sorted(fixed)):
                inp[k] = (100 + 7 * i) if isinstance(fixed[k], int) and not isinstance(fixed[k], bool) else (100.5 + 7 * i)
            jobs.append({'id': '%s@%d' % (name, j), 'mod': t['mod'], 'fn': t['fn'], 'params': t['params'], 'inputs': inp, 'model_obs': None})
    res = run_real(jobs, nproc=nproc)
    byid = dict((j['id'], j) for j in jobs)
    for jid, rr in res.items():
        out['assignments'] += 1
        st = rr['status']
        if st == 'holds':
            out['holds'] += 1
        elif st == 'reject':
            out['rejected'] += 1
        elif st == 'violates':
            hit = [rid for rid, v in (rr.get('regions') or {}).items() if v and rid in findings]
            if not hit:
                out['violations'].append((jid.rsplit('@', 1)[0], byid[jid]['inputs'], rr))
        else:
            out['errors'] += 1
    return out


def second_solver_check(results, nproc):
    """re-check dumped (discharged) obligations with the independent solver binaries /usr/bin/z3 (4.8.12) and cvc5 (1.0.3):
    they must not answer `sat`; a timeout / unknown / unsupported construct is 'no information'"""
    import shutil
    os.makedirs(WORK, exist_ok=True)
    files = []
    for name, r in results.items():
        for i, txt in enumerate(r.get('dumps') or []):
            f = os.path.join(WORK, 'ob-%d-%s-%d.smt2' % (os.getpid(), abs(hash(name)) % 10 ** 8, i))
            open(f, 'w').write('(set-logic ALL)\n' + txt)
            files.append((name, f))
    out = {'obligations': len(files), 'z3_4.8.12': {'unsat': 0, 'no_answer': 0, 'sat': 0}, 'cvc5_1.0.3': {'unsat': 0, 'no_answer': 0, 'sat': 0}, 'disagree': []}
    solvers = []
    if os.path.exists('/usr/bin/z3'):
        solvers.append(('z3_4.8.12', ['/usr/bin/z3', '-T:10']))
    if shutil.which('cvc5'):
        solvers.append(('cvc5_1.0.3', [shutil.which('cvc5'), '--tlimit=10000']))
    procs = []

    def drain():
        while procs:
            key, name, p = procs.pop(0)
            try:
                o = p.communicate(timeout=30)[0].decode('utf8', 'replace')
            except Exception:
                p.kill()
                o = ''
            lines = [l.strip() for l in o.splitlines() if l.strip()]
            ans = next((l for l in lines if l in ('sat', 'unsat', 'unknown')), '')
            if '(error' in o or ans not in ('sat', 'unsat'):
                out[key]['no_answer'] += 1
            elif ans == 'unsat':
                out[key]['unsat'] += 1
            else:
                out[key]['sat'] += 1
                out['disagree'].append(name)
    for name, f in files:
        for key, cmd in solvers:
            procs.append((key, name, subprocess.Popen(cmd + [f], stdout=subprocess.PIPE, stderr=subprocess.STDOUT)))
            if len(procs) >= max(2, nproc):
                drain()
    drain()
    for _, f in files:
        try:
            os.remove(f)
        except OSError:
            pass
    return out


def load_findings(prop):
    p = os.path.join(HERE, 'known_findings.json')
    if not os.path.exists(p):
        return {}
    data = json.load(open(p))
    return dict((f['id'], f) for f in data.get('findings', []) if f.get('property') == prop and f.get('status') == 'open')


def replay_file(path):
    job = json.load(open(path))
    j = {'id': 0, 'mod': job['mod'], 'fn': job['fn'], 'params': job['params'], 'inputs': job['inputs'], 'model_obs': None}
    r = run_real([j])[0]
    print("replay %s: template=%s status=%s" % (path, job.get('name'), r['status']))
    print("  inputs: %s" % json.dumps(job['inputs'], sort_keys=True))
    print("  real-stack observation: %s" % json.dumps(r.get('obs'))[:1500])
    if r['status'] == 'error':
        print("  error: %s\n%s" % (r.get('err'), r.get('tb', '')))
        return 3
    if r['status'] == 'violates':
        print("VIOLATION property=%s replay=%s" % (job['prop'], path))
        return 1
    return 0


def main(argv):
    args = list(argv)
    prop = None
    tier = os.environ.get('VERIF_TIER', 'quick')
    only = None
    jobs_n = int(os.environ.get('VERIF_JOBS', '0')) or min(16, multiprocessing.cpu_count())
    replay = None
    while args:
        a = args.pop(0)
        if a == '--tier':
            tier = args.pop(0)
        elif a == '--replay':
            replay = args.pop(0)
        elif a == '--only':
            only = args.pop(0)
        elif a == '--jobs':
            jobs_n = int(args.pop(0))
        else:
            prop = a
    try:
        seed = int(os.environ.get('VERIF_SEED', '0'))
    except ValueError:
        seed = 0
    ensure_deps()
    if replay:
        return replay_file(replay)
    if tier not in ('quick', 'thorough'):
        tier = 'quick'
    t0 = time.time()
    mod, ts = load_templates(prop, tier, seed, only)
    findings = load_findings(prop)
    deadline = getattr(mod, 'DEADLINE', {'quick': 90, 'thorough': 900})[tier]
    wcap = {'quick': 3, 'thorough': 12}[tier]
    from vlib import symworker
    pool = WorkerPool(jobs_n)
    results = {}
    pending = [{'t': t, 'deadline': deadline, 'exclude': [], 'witness_cap': wcap, 'seed': seed} for t in ts]
    # second-solver cross-check: a seed-rotated sample of templates hands back discharged obligations as SMT-LIB2
    rng2 = random.Random(seed + 7)
    for j in rng2.sample(pending, min(len(pending), {'quick': 24, 'thorough': 120}[tier])):
        j['dump_k'] = 2
    tmpl = dict((t['name'], t) for t in ts)
    violations = []
    known_hit = {}
    inconclusive = []
    spurious = []
    rounds = 0
    real_cex_checked = 0
    try:
        while pending and rounds < 8:
            rounds += 1
            got = pool.map(pending)
            pending = []
            cexjobs = []
            for r in got:
                prev = results.get(r['name'])
                if prev is not None:   # accumulate statistics over exclusion rounds
                    for k in ('paths', 'verified', 'vacuous', 'aborted', 'forks', 'decisions', 'q_sat', 'q_unsat', 'q_unknown'):
                        r[k] += prev[k]
                    r['solver_s'] += prev['solver_s']
                    r['wall_s'] += prev['wall_s']
                    r['functions'] = sorted(set(r['functions']) | set(prev['functions']))
                    r['witnesses'] = (prev['witnesses'] + r['witnesses'])[:wcap * 2]
                results[r['name']] = r
                if r['status'] == 'vacuous' and r.get('exclude'):
                    r['status'] = 'known-finding'     # every input of this template lies in a listed known-finding region
                if r['status'] == 'refuted':
                    t = tmpl[r['name']]
                    cexjobs.append({'id': r['name'], 'mod': t['mod'], 'fn': t['fn'], 'params': t['params'],
                                    'inputs': r['cex']['inputs'], 'model_obs': r['cex']['obs']})
            real = run_real(cexjobs, nproc=jobs_n)
            real_cex_checked += len(cexjobs)
            for name, rr in real.items():
                r = results[name]
                t = tmpl[name]
                if rr['status'] == 'violates':
                    hit = [rid for rid, v in (rr.get('regions') or {}).items() if v and rid in findings and rid not in r['exclude']]
                    if hit:
                        for rid in hit:
                            known_hit.setdefault(rid, {'templates': [], 'inputs': r['cex']['inputs']})['templates'].append(name)
                        pending.append({'t': t, 'deadline': deadline, 'exclude': r['exclude'] + hit, 'witness_cap': wcap, 'seed': seed})
                        r['status'] = 'known-finding'
                    else:
                        path = write_replay(prop, t, r['cex'], rr, 'solver counterexample')
                        violations.append((name, path))
                        r['status'] = 'violation'
                        r['replay'] = path
                elif rr['status'] == 'holds':
                    r['status'] = 'inconclusive'
                    r['reasons'] = ['counterexample of the model did not reproduce on the real stack (model imprecision): inputs %s' % json.dumps(r['cex']['inputs'], sort_keys=True)[:300]]
                    spurious.append(name)
                else:
                    r['status'] = 'inconclusive'
                    r['reasons'] = ['replay of counterexample: %s %s' % (rr['status'], rr.get('err', ''))]
    finally:
        pool.close()
    # ---- differential validation of path witnesses on the real stack
    wjobs = []
    for name, r in results.items():
        t = tmpl[name]
        for i, w in enumerate(r.get('witnesses', [])):
            wjobs.append({'id': "%s#%d" % (name, i), 'mod': t['mod'], 'fn': t['fn'], 'params': t['params'],
                          'inputs': w['inputs'], 'model_obs': w['obs']})
    wres = run_real(wjobs, nproc=jobs_n)
    validated = 0
    mismatches = []
    for j in wjobs:
        rr = wres[j['id']]
        name = j['id'].rsplit('#', 1)[0]
        if rr['status'] == 'holds' and not rr.get('mismatch'):
            validated += 1
        elif rr['status'] == 'violates':
            hit = [rid for rid, v in (rr.get('regions') or {}).items() if v and rid in findings]
            if hit:
                for rid in hit:
                    known_hit.setdefault(rid, {'templates': [], 'inputs': j['inputs']})['templates'].append(name)
            else:
                t = tmpl[name]
                path = write_replay(prop, t, {'inputs': j['inputs'], 'obs': j['model_obs']}, rr, 'path witness fails on the real stack')
                if results[name]['status'] != 'violation':
                    violations.append((name, path))
                    results[name]['status'] = 'violation'
                    results[name]['replay'] = path
        else:
            mismatches.append((j['id'], rr['status'], rr.get('mismatch') or rr.get('err')))
            if results[name]['status'] == 'confirmed':
                results[name]['status'] = 'inconclusive'
                results[name]['reasons'] = ['model/real-stack disagreement on a path witness: %s %s' % (rr['status'], str(rr.get('mismatch') or rr.get('err'))[:300])]
    enum = enumeration_cross_check(results, tmpl, findings, seed, {'quick': (8, 600), 'thorough': (60, 12000)}[tier], jobs_n)
    for name, inputs, rr in enum['violations']:
        t = tmpl[name]
        path = write_replay(prop, t, {'inputs': inputs, 'obs': None}, rr, 'bounded exhaustive concrete cross-check on the real stack')
        if results[name]['status'] != 'violation':
            violations.append((name, path))
            results[name]['status'] = 'violation'
            results[name]['replay'] = path
    second = second_solver_check(results, jobs_n)
    for name in second['disagree']:
        if results[name]['status'] == 'confirmed':
            results[name]['status'] = 'inconclusive'
            results[name]['reasons'] = ['a second solver does not agree that a discharged obligation is unsat']
    # ---- report
    agg = dict(paths=0, verified=0, vacuous=0, forks=0, decisions=0, q_sat=0, q_unsat=0, q_unknown=0, solver_s=0.0)
    functions = set()
    for r in results.values():
        for k in agg:
            agg[k] += r[k]
        functions.update(r['functions'])
    confirmed = [n for n, r in results.items() if r['status'] == 'confirmed']
    for n, r in sorted(results.items()):
        if r['status'] in ('inconclusive', 'error', 'vacuous'):
            why = r.get('error') or '; '.join(r.get('reasons') or []) or r['status']
            inconclusive.append({'template': n, 'status': r['status'], 'reason': why[:400]})
            print("INCONCLUSIVE property=%s template=%s status=%s reason=%s" % (prop, n, r['status'], why[:300].replace('\n', ' ')))
            if r.get('tb') and os.environ.get('VERIF_DEBUG'):
                print(r['tb'])
    for rid, info in sorted(known_hit.items()):
        print("KNOWN-FINDING: property=%s %s: %s (templates: %s)" % (prop, rid, findings[rid]['text'], ', '.join(sorted(set(info['templates']))[:4])))
    for m in mismatches[:10]:
        print("MODEL-MISMATCH property=%s witness=%s %s %s" % (prop, m[0], m[1], str(m[2])[:300]))
    for name, path in violations:
        print("VIOLATION property=%s replay=%s" % (prop, path))
    wall = time.time() - t0
    n_known = len([1 for r in results.values() if r['status'] == 'known-finding'])
    samples = []
    for n in sorted(confirmed, key=lambda n: -results[n]['paths'])[:3] + sorted(confirmed)[:2]:
        r = results[n]
        if r.get('witnesses'):
            samples.append({'template': n, 'fn': r['fn'], 'params': r['params'], 'paths': r['paths'],
                            'one_path_witness_inputs': r['witnesses'][0]['inputs'],
                            'observation_on_that_path': r['witnesses'][0]['obs']})
    if not samples:
        samples = [{'template': n, 'status': r['status']} for n, r in list(results.items())[:3]]
    ev = {
        'property_id': prop, 'tier': tier, 'seed': seed, 'level': 'model_checking',
        'wall_s': round(wall, 2), 'violations': len(violations),
        'coverage': {
            'states': agg['paths'], 'transitions': agg['decisions'],
            'traces_validated_against_impl': validated,
            'samples': samples,
            'evaluations': agg['paths'],
            'distinct_nontrivial': len([n for n in confirmed if results[n]['forks'] > 0]),
            'rule': 'one evaluation = one feasible execution path of the real dimarray code for one template (structural case); '
                    'a template is non-trivial if its exploration forked at least once on a symbolic value and every path was discharged',
            'obligations': len(results), 'discharged': len(confirmed),
            'templates_confirmed_modulo_known_findings': len([1 for r in results.values() if r['status'] in ('confirmed',)]),
            'paths_verified': agg['verified'], 'paths_vacuous': agg['vacuous'], 'forks': agg['forks'],
            'queries': {'sat': agg['q_sat'], 'unsat': agg['q_unsat'], 'unknown': agg['q_unknown']},
            'solver_s': round(agg['solver_s'], 2),
            'functions_encoded': sorted(functions),
            'bounds': getattr(mod, 'BOUNDS', {}).get(tier, getattr(mod, 'BOUNDS', {})),
            'templates': dict((n, {'status': r['status'], 'paths': r['paths'], 'wall_s': r['wall_s']}) for n, r in sorted(results.items())),
            'inconclusive': inconclusive,
            'known_findings': sorted(known_hit),
            'counterexamples_replayed_on_real_stack': real_cex_checked,
            'model_real_mismatches': len(mismatches),
            'spurious_model_counterexamples': spurious,
            'cross_check_enumeration_on_real_stack': dict((k, v) for k, v in enum.items() if k != 'violations'),
            'second_solver': dict((k, v) for k, v in second.items() if k != 'disagree'),
            'second_solver_disagreements': second['disagree'],
            'fresh_solver_queries': sum(r.get('fresh_solver_queries', 0) for r in results.values()),
            'exhaustive': False,
            'explanation': getattr(mod, 'EXPLANATION', ''),
            'engine': 'symx replay-based path exploration, z3 %s; numpy replaced by symnp list-backed model; source imported from %s' % (z3_version(), REPO),
        },
        'assumptions': COMMON_ASSUMPTIONS + list(getattr(mod, 'ASSUMPTIONS', [])),
    }
    evdir = os.environ.get('VERIF_EVIDENCE_DIR') or os.path.join(HERE, 'evidence')
    os.makedirs(evdir, exist_ok=True)
    json.dump(ev, open(os.path.join(evdir, prop + '.json'), 'w'), indent=1, sort_keys=True, default=str)
    print("%s %s: %d templates, %d confirmed, %d known-finding, %d inconclusive, %d violations; %d paths, %d witnesses validated on real stack, solver %.1fs, wall %.1fs"
          % (prop, tier, len(results), len(confirmed), n_known, len(inconclusive), len(violations), agg['paths'], validated, agg['solver_s'], wall))
    return 1 if violations else 0


def write_replay(prop, t, cex, rr, origin):
    d = os.environ.get('VERIF_REPLAY_DIR') or os.path.join(HERE, 'replays')
    os.makedirs(d, exist_ok=True)
    path = os.path.join(d, "%s-%s.json" % (prop, t['name'].replace('/', '_')))
    json.dump({'prop': prop, 'mod': t['mod'], 'fn': t['fn'], 'name': t['name'], 'params': t['params'], 'inputs': cex['inputs'],
               'model_obs': cex.get('obs'), 'real_obs': rr.get('obs'), 'regions': rr.get('regions'), 'origin': origin},
              open(path, 'w'), indent=1, sort_keys=True, default=str)
    return path


def z3_version():
    try:
        sys.path.insert(0, os.path.join(HERE, '.deps'))
        import z3
        return z3.get_version_string()
    except Exception:
        return '?'


COMMON_ASSUMPTIONS = [
    "numpy is replaced by the list-backed model /verif/symnp (validated by conformance.py against the real NumPy 2.5.3 and by replaying per-path witnesses on the real stack); copy semantics, no views",
    "python/numpy ints are mathematical integers (no int64 overflow); finite floats are exact reals (IEEE rounding, +-inf, -0.0 outside the claim); NaN is structural",
    "str labels are modelled as an abstract totally ordered domain (only == and < are used on them)",
    "numeric kernels without a linear encoding (median, var, std, percentile, //, **) are uninterpreted functions of their operand cells",
    "shapes, dims and index kinds are concrete per template and enumerated; only what lies inside the stated bounds is claimed",
    "trusted: z3, CPython, the harness oracles in /verif/props",
]

if __name__ == '__main__':
    sys.exit(main(sys.argv[1:]))
