#!/venv/bin/python
"""Cross-engine check: run one (small) template under CrossHair instead of symx.
usage: xhair.py <PROP> <template-name> [timeout_s]   -> prints one JSON line
{"template":..., "state": "CONFIRMED"|"REFUTED"|"UNKNOWN", "paths": n, "message": ...}

The harness function is the same one symx explores; it runs in ctx's concrete mode, with CrossHair's own
symbolic ints / floats / bools supplied as the input values (they flow through the symnp NumPy model like
symx values do).  Templates with str labels (ranks) are not supported here."""
import os
import sys
import json
import importlib
import warnings

HERE = os.path.dirname(os.path.dirname(os.path.abspath(__file__)))
REPO = os.environ.get('VERIF_REPO', '/repo')


def discover(fn, params, np, da, ctxmod):
    """which inputs (name, type) does the harness ask for?"""
    rec = []

    class D(ctxmod.Ctx):
        def int(self, name):
            rec.append((name, 'int'))
            return len(rec) * 3

        def real(self, name):
            rec.append((name, 'float'))
            return float(len(rec)) * 1.5

        def bool(self, name):
            rec.append((name, 'bool'))
            return False

        def rank(self, name):
            raise NotImplementedError("str labels are not supported under CrossHair")

        def choice(self, name, n):
            rec.append((name, 'int:%d' % n))
            return 0

        def assume(self, c):
            pass
    try:
        fn(D(np, da, False, inputs={}), **params)
    except NotImplementedError:
        raise
    except Exception:
        pass
    seen = []
    for r in rec:
        if r not in seen:
            seen.append(r)
    return seen


def main():
    prop, name = sys.argv[1], sys.argv[2]
    timeout = float(sys.argv[3]) if len(sys.argv) > 3 else 120.0
    sys.dont_write_bytecode = True
    for p in (REPO, os.path.join(HERE, '.deps'), HERE, os.path.join(HERE, 'symnp')):
        sys.path.insert(0, p)
    warnings.simplefilter('ignore')
    import io
    import contextlib
    import numpy as np
    with contextlib.redirect_stdout(io.StringIO()):
        import dimarray as da
    from vlib import ctx as ctxmod
    mod = importlib.import_module('props.' + prop)
    t = [t for t in mod.templates() if t['name'] == name][0]
    fn = getattr(mod, t['fn'])
    params = t.get('params', {})
    out = {'template': name}
    try:
        inputs = discover(fn, params, np, da, ctxmod)
    except NotImplementedError as e:
        out.update(state='UNSUPPORTED', message=str(e), paths=0)
        print(json.dumps(out))
        return

    class X(ctxmod.Ctx):
        """concrete-mode context that hands CrossHair's symbolic values through untouched"""

        def int(self, n):
            return self._get(n)

        def real(self, n):
            return self._get(n)

        def bool(self, n):
            return self._get(n)

        def choice(self, n, k):
            v = self._get(n)
            for i in range(k):       # fork on the value, return a concrete int
                if v == i:
                    return i
            raise ctxmod.Reject()

        def AND(self, *xs):
            r = True
            for x in xs:
                if x is True:
                    continue
                if x is False:
                    return False
                r = (r & x) if r is not True else x      # no short-circuit: one fork at the very end
            return r

        def OR(self, *xs):
            r = False
            for x in xs:
                if x is False:
                    continue
                if x is True:
                    return True
                r = (r | x) if r is not False else x
            return r

        def NOT(self, x):
            if x is True or x is False:
                return not x
            return x ^ True

        def eq(self, a, b):
            an, bn = self.isnan(a), self.isnan(b)
            if an or bn:
                return an and bn
            if isinstance(a, (tuple, list)) or isinstance(b, (tuple, list)):
                return ctxmod.Ctx.eq(self, a, b)
            return a == b
    args = ", ".join("%s: %s" % (n.replace('.', '_'), ty.split(':')[0]) for n, ty in inputs)
    pres = ["0 <= %s < %s" % (n, ty.split(':')[1]) for n, ty in inputs if ':' in ty]
    pres += ["%s == %s" % (n, n) for n, ty in inputs if ty == 'float']          # finite reals, as in symx (NaN is structural there)
    pre = " and ".join(pres) or "True"
    src = "def harness(%s) -> bool:\n    '''\n    pre: %s\n    post: _\n    '''\n    return _run(dict(%s))\n" % (
        args, pre, ", ".join("%s=%s" % (n, n) for n, _ in inputs))

    def _run(values):
        c = X(np, da, False, inputs=values)
        try:
            with np_errstate():
                return bool(fn(c, **params))
        except ctxmod.Reject:
            return True

    @contextlib.contextmanager
    def np_errstate():
        yield
    ns = {'_run': _run}
    modname = 'xhair_generated'
    import types
    m = types.ModuleType(modname)
    m.__dict__.update(ns)
    # CrossHair wants real source lines: write the generated function to a file
    os.makedirs(os.path.join(HERE, '.work'), exist_ok=True)
    path = os.path.join(HERE, '.work', 'xhair_%d.py' % os.getpid())
    open(path, 'w').write(src)
    spec = importlib.util.spec_from_file_location(modname, path)
    m = importlib.util.module_from_spec(spec)
    m._run = _run
    sys.modules[modname] = m
    spec.loader.exec_module(m)
    import collections
    from crosshair.core_and_libs import analyze_function, run_checkables
    from crosshair.options import AnalysisOptionSet, AnalysisKind
    stats = collections.Counter()
    opts = AnalysisOptionSet(per_condition_timeout=timeout, analysis_kind=[AnalysisKind.PEP316], report_all=True, stats=stats,
                             max_uninteresting_iterations=sys.maxsize)
    try:
        msgs = run_checkables(analyze_function(m.harness, opts))
        states = [mm.state.name for mm in msgs]
        message = "; ".join(mm.message[:200] for mm in msgs)
        if any(s in ('POST_FAIL', 'EXEC_ERR', 'PRE_UNSAT', 'POST_ERR') for s in states):
            state = 'REFUTED' if 'POST_FAIL' in states else 'UNKNOWN'
        elif states and all(s == 'CONFIRMED' for s in states):
            state = 'CONFIRMED'
        else:
            state = 'UNKNOWN'
        out.update(state=state, states=states, message=message, paths=int(stats.get('num_paths', 0)), stats=dict(stats))
    finally:
        try:
            os.remove(path)
        except OSError:
            pass
    print(json.dumps(out, default=str))


if __name__ == '__main__':
    import importlib.util
    main()
