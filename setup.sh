#!/bin/sh
# offline setup: install the z3 bindings (and CrossHair for the cross-engine tier) for /venv's python into /verif/.deps
set -e
cd "$(dirname "$0")"
if [ ! -d .deps/z3 ]; then
  /venv/bin/python -m pip install -q --no-index --find-links /opt/veriftools/wheels --target .deps z3-solver
fi
/venv/bin/python -c "import sys; sys.path.insert(0,'.deps'); import z3; print('z3', z3.get_version_string())"
